"""Bounded drivers: enumerate / sample the scenario space of rt/scen.py, run the real code under the monitors of
rt/simcheck.py and report the clauses of one property.  Result format (consumed by pyvc/run.py):
dict(label, bound, evaluations, distinct_nontrivial, clause_evaluations, wrapper_calls, violations=[{what, replay}])"""
from __future__ import annotations

import json
import os
import random
import time
import traceback

from . import scen, simcheck

VERIF = os.path.dirname(os.path.dirname(os.path.abspath(__file__)))


def sched_for(k):
    kinds = [dict(kind="scripted"), dict(kind="scripted"), dict(kind="uncontrolled")]
    for srt in scen.SORTS:
        kinds.append(dict(kind="sorted", sort=srt))
    kinds += [dict(kind="rr", sort="first_come_first_served"), dict(kind="sorted", sort="least_laxity_first", estimate=True),
              dict(kind="sorted", sort="earliest_deadline_first", uninterrupted=True)]
    c = dict(kinds[k % len(kinds)])
    if c["kind"] == "scripted":
        c["seed"] = k
    return c


def harness_fault(e):
    """True if the exception was raised by the monitor's own code (innermost frame under rt/), i.e. a checker bug, not a finding."""
    tb = traceback.extract_tb(e.__traceback__)
    return bool(tb) and os.sep + "rt" + os.sep in tb[-1].filename


def write_replay(prop, name, doc):
    d = os.path.join(os.environ.get("VERIF_EVIDENCE_DIR") or VERIF, "replays", prop)
    os.makedirs(d, exist_ok=True)
    p = os.path.join(d, "".join(c if (c.isalnum() or c in "._-") else "_" for c in name))
    with open(p, "w") as f:
        json.dump(doc, f, indent=1, default=str)
    return p


def run_scenario(scn, prop=None, **kw):
    sim = scen.build(scn, **kw)
    obs = simcheck.observe(sim, scn)
    cl = simcheck.clauses(sim, scn, obs, shift=kw.get("shift", 0))
    if prop is not None:
        cl = [c for c in cl if c[0] == prop or (c[1] == "no_exception")]
    return sim, obs, cl


def sim_monitor(task):
    """Whole-simulation clauses of task['prop'] over seeded scenarios (all scheduler kinds)."""
    prop, tier, seed0 = task["prop"], task.get("tier", "quick"), int(task.get("seed", 0))
    n = int(task.get("n", 0)) or (60 if tier == "quick" else 1500)
    only = task.get("schedulers")            # restrict scheduler kinds
    t0 = time.time()
    evals = clause_evals = 0
    distinct = set()
    viol = []
    calls = {}
    tags = {}
    for k in range(n):
        sc_kind = sched_for(k + seed0)
        if only and sc_kind["kind"] not in only:
            sc_kind = dict(kind=only[k % len(only)], sort=scen.SORTS[k % len(scen.SORTS)], seed=k)
        finite = sc_kind["kind"] in ("sorted", "rr")
        scn = scen.gen(seed0 * 100003 + k, scheduler=sc_kind, allow_deadband=not finite)
        try:
            sim, obs, cl = run_scenario(scn, prop)
        except Exception as e:                         # the harness itself failed: report as broken, not as violation
            return dict(label=task.get("label", "sim_monitor"), error=f"scenario {k}: {type(e).__name__}: {e}")
        evals += 1
        key = (len(scn["stations"]), len(scn["sessions"]), len(scn["constraints"]), scn["period"], scn["max_recompute"], sc_kind["kind"], sc_kind.get("sort"))
        if len(scn["sessions"]) >= 2 or len(scn["stations"]) >= 2:
            distinct.add(key)
        for c, v in obs.calls.items():
            calls[c] = calls.get(c, 0) + v
        for (p, tag, ok, detail) in cl:
            clause_evals += 1
            tags[tag] = tags.get(tag, 0) + 1
            if not ok and len(viol) < 5:
                rp = write_replay(prop, f"monitor_{tag[:40].replace('/', '_')}_{scn['seed']}.json",
                                  dict(kind="sim_monitor", property=prop, clause=tag, detail=detail, scenario=scn,
                                       note="replay: ./check %s --replay <this file> re-runs this scenario on the real code" % prop))
                viol.append(dict(what=f"{tag}: {detail}"[:300], replay=rp))
    return dict(label=task.get("label", "sim_monitor"),
                bound=f"{n} seeded scenarios: 1-4 stations (EVSE/Deadband/FiniteRates, mixed voltages and phases), 0-3 mixed-sign constraints, "
                      f"1-6 sessions with back-to-back reuse and simultaneous events, Battery / two-stage batteries (noise off), periods 1/5/7.5, "
                      f"max_recompute None/1/2/3, scripted (partial, multi-period, over-long, empty schedules) / uncontrolled / sorted / round-robin schedulers",
                evaluations=evals, distinct_nontrivial=len(distinct), clause_evaluations=clause_evals, clauses=tags,
                wrapper_calls=calls, violations=viol, wall_s=round(time.time() - t0, 2))


def replay_file(doc):
    """Re-run a monitor replay file.  -> (reproduced: bool, text)"""
    if doc.get("kind") == "sim_monitor":
        sim, obs, cl = run_scenario(doc["scenario"], doc["property"])
        bad = [c for c in cl if not c[2] and c[1] == doc["clause"]]
        return bool(bad), "\n".join(f"{c[1]}: {c[3]}" for c in bad[:5]) or "clause holds on this tree"
    if doc.get("kind") == "resume_monitor":
        ref = scen.build(doc["scenario"]); ref.run()
        r = check_resume(doc["scenario"], doc["point"], doc["mode"], _trajectory(ref))
        hit = r is not None and r[0] == doc["clause"]
        return hit, (f"{r[0]}: {r[1]}" if hit else "clause holds on this tree")
    if doc.get("kind") == "pair_monitor":
        import warnings
        scn = doc["scenario"]
        with warnings.catch_warnings():
            warnings.simplefilter("ignore")
            base = scen.build(scn); base.run()
            A = _outputs(base)
            hits = []
            for variant, kw in pair_variants(scn, random.Random(0)) + [(doc["variant"], {})]:
                if variant != doc["variant"] and not variant.startswith(doc["variant"].split(":")[0]):
                    continue
                sim = scen.build(scn, **kw); sim.run()
                d = _diff_outputs(A, _outputs(sim, shift=kw.get("shift", 0)))
                if d:
                    hits.append(f"{variant}: {d}")
        return bool(hits), "\n".join(hits[:5]) or "paired runs agree on this tree"
    if doc.get("kind") == "algo_monitor":
        from . import algomon
        return algomon.replay(doc)
    if doc.get("kind") == "exception":
        import importlib
        try:
            getattr(importlib.import_module(doc["module"]), doc["monitor"])(dict(doc.get("task", {}), prop=doc["property"]))
        except Exception as e:
            if harness_fault(e):
                raise
            return True, f"{type(e).__name__}: {e}"
        return False, "no exception on this tree"
    if doc.get("kind") == "stoch_monitor":
        r = _stoch_run(doc["seed"])
        hit = [b for b in r["bad"] if b[0] == doc["clause"]]
        return bool(hit), "\n".join(f"{a}: {b}" for a, b in hit) or "clause holds on this tree"
    if doc.get("kind") == "fn_monitor":
        import importlib
        return importlib.import_module(doc.get("module", "rt.fnmon")).replay(doc)
    raise ValueError("unknown replay kind")


# ============================================================================ C09: interruption / serialisation / resume
def _trajectory(sim):
    import numpy as np
    T = sim._iteration
    return dict(
        iteration=T,
        pilots=np.array(sim.pilot_signals[:, :T], dtype=float),
        rates=np.array(sim.charging_rates[:, :T], dtype=float),
        energies={k: float(ev._energy_delivered) for k, ev in sim.ev_history.items()},
        charges={k: float(ev._battery._current_charge) for k, ev in sim.ev_history.items()},
        history=[(e.timestamp, type(e).__name__, getattr(getattr(e, "ev", None), "_session_id", None)) for e in sim.event_history],
        peak=float(sim.peak),
        sched_hist=None if sim.schedule_history is None else {int(k): {s: [float(x) for x in v] for s, v in d.items()} for k, d in sim.schedule_history.items()},
    )


def _same_traj(a, b):
    import numpy as np
    for k in ("iteration", "energies", "charges", "history", "peak", "sched_hist"):
        if a[k] != b[k]:
            return k
    for k in ("pilots", "rates"):
        if a[k].shape != b[k].shape or not np.array_equal(a[k], b[k]):
            return k
    return None


def _shared_objects_ok(sim):
    """an EV referenced from its station, the session history and pending events is one object"""
    by_sid = {}
    for k, ev in sim.ev_history.items():
        by_sid[k] = ev
    for e in sim.network._EVSEs.values():
        if e._ev is not None and by_sid.get(e._ev._session_id) is not e._ev:
            return f"station {e._station_id} holds a different object for session {e._ev._session_id}"
    for ts, ev_ in sim.event_queue._queue:
        x = getattr(ev_, "ev", None)
        if x is not None and x._session_id in by_sid and by_sid[x._session_id] is not x:
            return f"pending {type(ev_).__name__} refers to a different object for session {x._session_id}"
    for ev_ in sim.event_history:
        x = getattr(ev_, "ev", None)
        if x is not None and x._session_id in by_sid and by_sid[x._session_id] is not x:
            return f"history {type(ev_).__name__} refers to a different object for session {x._session_id}"
    return None


def resume_monitor(task):
    """Every period of every scenario as interruption point, resumed directly and through a JSON round trip."""
    import warnings
    from acnportal import acnsim
    prop, tier, seed0 = task["prop"], task.get("tier", "quick"), int(task.get("seed", 0))
    n = 60 if tier == "quick" else 1500
    t0 = time.time()
    evals = 0
    distinct = set()
    viol = []

    def bad(tag, detail, scn, point, mode):
        if len(viol) < 5:
            rp = write_replay(prop, f"resume_{tag}_{scn['seed']}_{point}_{mode}.json",
                              dict(kind="resume_monitor", property=prop, clause=tag, detail=detail, scenario=scn, point=point, mode=mode))
            viol.append(dict(what=f"{tag} (interrupt at {point}, {mode}): {detail}"[:300], replay=rp))

    for k in range(n):
        sc_kind = sched_for(2 * k + seed0)
        if sc_kind["kind"] == "sorted" and sc_kind.get("estimate"):
            sc_kind = dict(kind="sorted", sort="first_come_first_served")       # the estimator keeps state outside the simulator
        finite = sc_kind["kind"] in ("sorted", "rr")
        scn = scen.gen(seed0 * 100003 + 7 * k + 1, scheduler=sc_kind, allow_deadband=not finite, max_sessions=4)
        try:
            with warnings.catch_warnings():
                warnings.simplefilter("ignore")
                ref = scen.build(scn)
                ref.run()
                R = _trajectory(ref)
                for point in range(R["iteration"]):
                    for mode in ("direct", "json"):
                        r = check_resume(scn, point, mode, R)
                        if r is None:
                            continue
                        evals += 1
                        distinct.add((scn["seed"], point, mode))
                        if r[0] is not None:
                            bad(r[0], r[1], scn, point, mode)
        except Exception as e:
            return dict(label=task.get("label", "resume_monitor"), error=f"scenario {k}: {type(e).__name__}: {e}")
    return dict(label=task.get("label", "resume_monitor"),
                bound=f"{n} seeded scenarios (<=4 stations, <=4 sessions, all scheduler kinds without external estimator state), EVERY period as "
                      f"interruption point, resumed directly and after to_json/from_json + update_scheduler; compared with the uninterrupted run",
                evaluations=evals, distinct_nontrivial=len(distinct), violations=viol, wall_s=round(time.time() - t0, 2))


def check_resume(scn, point, mode, R):
    """-> None if the scheduler is not invoked at `point`; (None, '') if equal; (tag, detail) otherwise"""
    import warnings
    from acnportal import acnsim
    with warnings.catch_warnings():
        warnings.simplefilter("ignore")
        sim = scen.build(scn, fail_at=point)
        try:
            sim.run()
            return None                                   # scheduler not invoked in that period: no interruption
        except InterruptedError:
            pass
        if mode == "json":
            sch = sim.scheduler
            try:
                sim2 = acnsim.Simulator.from_json(sim.to_json())
            except Exception as e:
                return ("json_round_trip_possible", f"{type(e).__name__}: {e}")
            why = _shared_objects_ok(sim2)
            if why:
                return ("shared_ev_is_one_object_after_load", why)
            d1, d2 = simcheck_digest(sim), simcheck_digest(sim2)
            diff = simcheck.same_digest(d1, d2)
            if diff:
                return ("loaded_object_carries_complete_state", f"field group '{diff}' differs after load")
            sim2.update_scheduler(sch)
            sim = sim2
        try:
            sim.run()
        except Exception as e:
            return ("resumed_run_completes", f"{type(e).__name__}: {e}")
        diff = _same_traj(_trajectory(sim), R)
        if diff:
            return ("resumed_equals_uninterrupted", f"'{diff}' differs from the uninterrupted run")
    return (None, "")


def simcheck_digest(sim):
    d = simcheck.digest(sim)
    d.pop("evses", None)
    d["evses"] = {k: (type(e).__name__, e._current_pilot, None if e._ev is None else e._ev._session_id) for k, e in sim.network._EVSEs.items()}
    return d


# ============================================================================ C19 / C02: whole simulations on a StochasticNetwork
def stochastic_sim_monitor(task):
    import random as pyrandom
    import warnings
    import numpy as np
    from acnportal import acnsim, algorithms
    from acnportal.contrib.acnsim.network.stochastic_network import StochasticNetwork
    prop, tier, seed0 = task["prop"], task.get("tier", "quick"), int(task.get("seed", 0))
    n = 300 if tier == "quick" else 5000
    t0 = time.time()
    evals = 0
    distinct = set()
    viol = []

    def bad(tag, detail, seed):
        if len(viol) < 5:
            rp = write_replay(prop, f"stoch_{tag}_{seed}.json", dict(kind="stoch_monitor", property=prop, clause=tag, detail=detail, seed=seed))
            viol.append(dict(what=f"{tag}: {detail}"[:300], replay=rp))

    for k in range(n):
        seed = seed0 * 100003 + k
        evals += 1
        try:
            r1 = _stoch_run(seed)
            r2 = _stoch_run(seed)
        except Exception as e:
            if harness_fault(e):
                return dict(label=task.get("label", "stochastic_sim_monitor"), error=f"seed {seed}: {type(e).__name__}: {e}")
            bad("run_completes", f"{type(e).__name__}: {e}", seed)
            continue
        distinct.add(r1["shape"])
        for tag, detail in r1["bad"]:
            if prop == "C19" or tag.startswith("C02"):
                bad(tag, detail, seed)
        if prop == "C19" and (r1["traj"] != r2["traj"]):
            bad("reproducible_under_a_fixed_seed", "two runs with the same seed differ", seed)
    return dict(label=task.get("label", "stochastic_sim_monitor"),
                bound=f"{n} seeded simulations on a StochasticNetwork: 1-3 stations, 3-8 sessions with more simultaneous sessions than stations, "
                      f"early_departure on/off, uncontrolled / FCFS schedulers, each run twice under the same seed",
                evaluations=evals, distinct_nontrivial=len(distinct), violations=viol, wall_s=round(time.time() - t0, 2))


def _stoch_run(seed):
    import random as pyrandom
    import warnings
    import numpy as np
    from acnportal import acnsim, algorithms
    from acnportal.contrib.acnsim.network.stochastic_network import StochasticNetwork
    from acnportal.acnsim.network.charging_network import ChargingNetwork
    r = random.Random(seed)
    early = r.random() < 0.6
    net = StochasticNetwork(early_departure=early)
    ns = r.randint(1, 3)
    volts = {}
    for i in range(ns):
        v = r.choice([208, 240])
        volts[f"S{i}"] = v
        net.register_evse(acnsim.EVSE(f"S{i}", max_rate=32), v, 0)
    events, sess = [], {}
    for j in range(r.randint(3, 8)):
        a = r.randint(0, 6)
        d = a + r.randint(1, 8)
        energy = r.choice([0.3, 1.0, 3.0, 20.0])
        ev = acnsim.EV(a, d, energy, "S0", f"s{j}", acnsim.Battery(energy + r.choice([0, 5]), 0, 7.0))
        sess[f"s{j}"] = (a, d)
        events.append(acnsim.PluginEvent(a, ev))
    sch = algorithms.UncontrolledCharging() if r.random() < 0.5 else algorithms.SortedSchedulingAlgo(algorithms.first_come_first_served)
    sch.max_recompute = 1
    period = r.choice([1, 5])
    sim = acnsim.Simulator(net, sch, acnsim.EventQueue(events), scen.START, period=period, verbose=False)
    occ_log = {}
    orig = ChargingNetwork.update_pilots

    def w(self, pilots, i, p):
        occ_log[i] = {k: (None if e._ev is None else e._ev._session_id) for k, e in self._EVSEs.items()}
        conn = [x for x in occ_log[i].values() if x is not None]
        if len(conn) != len(set(conn)):
            bad.append(("no_station_holds_two", f"t={i}: {occ_log[i]}"))
        if len(self.waiting_queue) > 0 and any(x is None for x in occ_log[i].values()):
            bad.append(("nobody_waits_while_a_station_is_free", f"t={i}: {occ_log[i]} waiting {list(self.waiting_queue)}"))
        for sid_ in conn:
            a_, d_ = sess[sid_]
            if not (a_ <= i < d_):
                bad.append(("connected_only_between_arrival_and_departure", f"t={i}: {sid_} [{a_},{d_})"))
        return orig(self, pilots, i, p)
    bad = []
    pyrandom.seed(seed)
    ChargingNetwork.update_pilots = w
    try:
        with warnings.catch_warnings():
            warnings.simplefilter("ignore")
            sim.run()
    finally:
        ChargingNetwork.update_pilots = orig
    if any(e._ev is not None for e in net._EVSEs.values()) or len(net.waiting_queue) > 0:
        bad.append(("every_session_gone_at_the_end", f"occupants {[e._ev._session_id for e in net._EVSEs.values() if e._ev is not None]} waiting {list(net.waiting_queue)}"))
    ids = list(net.station_ids)
    T = sim._iteration
    never = 0
    for sid_, ev in sim.ev_history.items():
        want = sum(float(sim.charging_rates[ids.index(s), t]) * volts[s] / 1000 * period / 60
                   for t, occ in occ_log.items() for s, o in occ.items() if o == sid_ and t < T)
        if abs(ev._energy_delivered - want) > 1e-8 * max(1.0, abs(want)):
            bad.append(("C02.delivered_equals_sum_rate_x_V_x_dt", f"{sid_}: reported {ev._energy_delivered} recorded {want}"))
        if not any(o == sid_ for occ in occ_log.values() for o in occ.values()):
            never += 1
    for t, occ in occ_log.items():
        for s, o in occ.items():
            if o is None and t < T and float(sim.charging_rates[ids.index(s), t]) != 0.0:
                bad.append(("C02.vacant_station_records_zero", f"t={t} {s}: {sim.charging_rates[ids.index(s), t]}"))
    if net.never_charged > never:
        bad.append(("never_charged_counts_only_sessions_that_never_connected", f"counter {net.never_charged}, sessions never connected {never}"))
    traj = (T, sim.charging_rates[:, :T].tolist(), sim.pilot_signals[:, :T].tolist(), sorted((k, e._energy_delivered) for k, e in sim.ev_history.items()),
            net.swaps, net.never_charged, net.early_unplug, sorted(occ_log.items()))
    return dict(bad=bad, traj=traj, shape=(ns, len(sess), early, period, type(sch).__name__, seed))


# ============================================================================ C10: determinism, order independence, time shift
def _outputs(sim, shift=0):
    ids = list(sim.network.station_ids)
    T = sim._iteration
    return dict(
        T=T - shift,
        pilots={s: [float(x) for x in sim.pilot_signals[i, shift:T]] for i, s in enumerate(ids)},
        rates={s: [float(x) for x in sim.charging_rates[i, shift:T]] for i, s in enumerate(ids)},
        lead={s: [float(x) for x in sim.pilot_signals[i, :shift]] + [float(x) for x in sim.charging_rates[i, :shift]] for i, s in enumerate(ids)},
        energies={k: float(ev._energy_delivered) for k, ev in sim.ev_history.items()},
    )


def _diff_outputs(a, b):
    for k in ("T", "energies", "pilots", "rates"):
        if a[k] != b[k]:
            if isinstance(a[k], dict):
                for kk in a[k]:
                    if a[k].get(kk) != b[k].get(kk):
                        return f"{k}[{kk}]: {a[k].get(kk)} vs {b[k].get(kk)}"
            return f"{k}: {a[k]} vs {b[k]}"
    return None


def pair_monitor(task):
    import itertools
    import subprocess
    import sys
    import warnings
    prop, tier, seed0 = task["prop"], task.get("tier", "quick"), int(task.get("seed", 0))
    n = 60 if tier == "quick" else 1500
    t0 = time.time()
    evals = 0
    viol, distinct = [], set()

    def bad(tag, detail, scn, variant):
        if len(viol) < 5:
            rp = write_replay(prop, f"pair_{tag}_{scn['seed']}.json", dict(kind="pair_monitor", property=prop, clause=tag, detail=detail, scenario=scn, variant=variant))
            viol.append(dict(what=f"{tag} ({variant}): {detail}"[:300], replay=rp))

    fresh_jobs = []
    for k in range(n):
        r = random.Random(seed0 * 100003 + k)
        kinds = [dict(kind="scripted", seed=k), dict(kind="uncontrolled"), dict(kind="sorted", sort=scen.SORTS[k % 5]), dict(kind="rr", sort=scen.SORTS[k % 5])]
        sc_kind = kinds[k % len(kinds)]
        finite = sc_kind["kind"] in ("sorted", "rr")
        scn = scen.gen(seed0 * 100003 + k, scheduler=sc_kind, finite_only=finite, distinct_keys=True, allow_deadband=not finite)
        try:
            with warnings.catch_warnings():
                warnings.simplefilter("ignore")
                base = scen.build(scn)
                tie = _watch_ties(base, scn)
                base.run()
                if tie[0]:
                    continue            # the property excludes schedulers whose decisions hinge on ties (stable sort keeps input order)
                A = _outputs(base)
                for variant, kw in pair_variants(scn, r):
                    evals += 1
                    distinct.add((scn["seed"], variant))
                    sim = scen.build(scn, **kw); sim.run()
                    B = _outputs(sim, shift=kw.get("shift", 0))
                    d = _diff_outputs(A, B)
                    tag = {"same": "equal_inputs_give_identical_outputs", "stations": "independent_of_station_registration_order",
                           "constraints": "independent_of_constraint_order", "sessions": "independent_of_session_listing_order"}.get(variant.split(":")[0],
                                                                                                                              "shift_of_events_shifts_outputs")
                    if d:
                        bad(tag, d, scn, variant)
                    if kw.get("shift") and any(any(x != 0 for x in v) for v in B["lead"].values()):
                        bad("shift_of_events_shifts_outputs", f"non-zero outputs before the shifted origin: {B['lead']}", scn, variant)
        except Exception as e:
            if harness_fault(e):
                return dict(label=task.get("label", "pair_monitor"), error=f"scenario {k}: {type(e).__name__}: {e}")
            bad("paired_runs_complete", f"{type(e).__name__}: {e}", scn, "?")
            continue
        if len(fresh_jobs) < (4 if tier == "quick" else 24) and sc_kind["kind"] in ("sorted", "rr"):
            fresh_jobs.append((scn, A))
    # determinism across processes: the same scenario in a fresh interpreter (no state left over from other simulations)
    from pyvc.source import REPO
    for scn, A in fresh_jobs:
        evals += 1
        code = ("import sys, json, warnings; sys.path.insert(0, %r); sys.path.insert(0, %r); warnings.simplefilter('ignore');"
                "from rt import scen, drivers; scn = json.loads(sys.stdin.read()); s = scen.build(scn); s.run(); print('OUT' + json.dumps(drivers._outputs(s)))") % (VERIF, REPO)
        p = subprocess.run([sys.executable, "-c", code], input=json.dumps(scn), capture_output=True, text=True, timeout=300)
        line = [l for l in p.stdout.splitlines() if l.startswith("OUT")]
        if not line:
            return dict(label=task.get("label", "pair_monitor"), error=f"fresh interpreter failed: {p.stderr[-300:]}")
        B = json.loads(line[0][3:])
        d = _diff_outputs(json.loads(json.dumps(A)), B)
        if d:
            bad("equal_inputs_give_identical_outputs", f"in-process run (after other simulations) differs from a fresh interpreter: {d}", scn, "fresh-process")
    return dict(label=task.get("label", "pair_monitor"),
                bound=f"{n} seeded scenarios with distinct priority keys (scripted / uncontrolled / finite-rate greedy / finite-rate round robin), each re-run with the same inputs, "
                      f"up to 3 station permutations, 2 constraint permutations, 2 session permutations and shifts k in {{1, 3}} (k = 6 when the pre-event recompute grid matters); "
                      f"{len(fresh_jobs)} scenarios re-run in a fresh interpreter",
                evaluations=evals, distinct_nontrivial=len(distinct), violations=viol, wall_s=round(time.time() - t0, 2))


def _watch_ties(sim, scn):
    """flag[0] becomes True if the priority keys of the sessions handed to the sort function are not pairwise distinct at some invocation"""
    flag = [False]
    sch = sim.scheduler
    if scn["scheduler"]["kind"] not in ("sorted", "rr"):
        return flag
    from .algomon import _keys
    orig = sch._sort_fn
    sort = scn["scheduler"]["sort"]

    def watched(evs, iface):
        keys, _ = _keys(sort, list(evs), iface)
        if len(set(round(float(k), 9) for k in keys)) != len(keys):
            flag[0] = True
        return orig(evs, iface)
    sch._sort_fn = watched
    return flag


def pair_variants(scn, r):
    out = [("same", {})]
    ns, nc, nn = len(scn["stations"]), len(scn["constraints"]), len(scn["sessions"])
    for _ in range(3):
        if ns > 1:
            p = list(range(ns)); r.shuffle(p)
            out.append((f"stations:{p}", dict(station_order=p)))
    for _ in range(2):
        if nc > 1:
            p = list(range(nc)); r.shuffle(p)
            out.append((f"constraints:{p}", dict(constraint_order=p)))
        if nn > 1:
            p = list(range(nn)); r.shuffle(p)
            out.append((f"sessions:{p}", dict(session_order=p)))
    mr = scn["max_recompute"]
    first = min(s["arrival"] for s in scn["sessions"])
    if scn["scheduler"]["kind"] != "scripted" or mr is None or first == 0:
        shifts = [1, 3]
    else:
        shifts = [6]
    if scn.get("recompute_events") and scn["scheduler"]["kind"] == "scripted" and mr is not None and min(scn["recompute_events"]) < first:
        shifts = [6]
    for k in shifts:
        out.append((f"shift:{k}", dict(shift=k)))
    return out
