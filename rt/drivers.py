"""Bounded drivers: enumerate / sample the scenario space of rt/scen.py, run the real code under the monitors of
rt/simcheck.py and report the clauses of one property.  Result format (consumed by pyvc/run.py):
dict(label, bound, evaluations, distinct_nontrivial, clause_evaluations, wrapper_calls, violations=[{what, replay}])"""
from __future__ import annotations

import json
import os
import time

from . import scen, simcheck

VERIF = os.path.dirname(os.path.dirname(os.path.abspath(__file__)))


def sched_for(k):
    kinds = [dict(kind="scripted"), dict(kind="scripted"), dict(kind="uncontrolled")]
    for srt in scen.SORTS:
        kinds.append(dict(kind="sorted", sort=srt))
    kinds += [dict(kind="rr", sort="first_come_first_served"), dict(kind="sorted", sort="least_laxity_first", estimate=True),
              dict(kind="sorted", sort="earliest_deadline_first", uninterrupted=True)]
    c = dict(kinds[k % len(kinds)])
    if c["kind"] == "scripted":
        c["seed"] = k
    return c


def write_replay(prop, name, doc):
    d = os.path.join(os.environ.get("VERIF_EVIDENCE_DIR") or VERIF, "replays", prop)
    os.makedirs(d, exist_ok=True)
    p = os.path.join(d, name)
    with open(p, "w") as f:
        json.dump(doc, f, indent=1, default=str)
    return p


def run_scenario(scn, prop=None, **kw):
    sim = scen.build(scn, **kw)
    obs = simcheck.observe(sim, scn)
    cl = simcheck.clauses(sim, scn, obs, shift=kw.get("shift", 0))
    if prop is not None:
        cl = [c for c in cl if c[0] == prop or (c[1] == "no_exception")]
    return sim, obs, cl


def sim_monitor(task):
    """Whole-simulation clauses of task['prop'] over seeded scenarios (all scheduler kinds)."""
    prop, tier, seed0 = task["prop"], task.get("tier", "quick"), int(task.get("seed", 0))
    n = int(task.get("n", 0)) or (60 if tier == "quick" else 1500)
    only = task.get("schedulers")            # restrict scheduler kinds
    t0 = time.time()
    evals = clause_evals = 0
    distinct = set()
    viol = []
    calls = {}
    tags = {}
    for k in range(n):
        sc_kind = sched_for(k + seed0)
        if only and sc_kind["kind"] not in only:
            sc_kind = dict(kind=only[k % len(only)], sort=scen.SORTS[k % len(scen.SORTS)], seed=k)
        finite = sc_kind["kind"] in ("sorted", "rr")
        scn = scen.gen(seed0 * 100003 + k, scheduler=sc_kind, allow_deadband=not finite)
        try:
            sim, obs, cl = run_scenario(scn, prop)
        except Exception as e:                         # the harness itself failed: report as broken, not as violation
            return dict(label=task.get("label", "sim_monitor"), error=f"scenario {k}: {type(e).__name__}: {e}")
        evals += 1
        key = (len(scn["stations"]), len(scn["sessions"]), len(scn["constraints"]), scn["period"], scn["max_recompute"], sc_kind["kind"], sc_kind.get("sort"))
        if len(scn["sessions"]) >= 2 or len(scn["stations"]) >= 2:
            distinct.add(key)
        for c, v in obs.calls.items():
            calls[c] = calls.get(c, 0) + v
        for (p, tag, ok, detail) in cl:
            clause_evals += 1
            tags[tag] = tags.get(tag, 0) + 1
            if not ok and len(viol) < 5:
                rp = write_replay(prop, f"monitor_{tag[:40].replace('/', '_')}_{scn['seed']}.json",
                                  dict(kind="sim_monitor", property=prop, clause=tag, detail=detail, scenario=scn,
                                       note="replay: ./check %s --replay <this file> re-runs this scenario on the real code" % prop))
                viol.append(dict(what=f"{tag}: {detail}"[:300], replay=rp))
    return dict(label=task.get("label", "sim_monitor"),
                bound=f"{n} seeded scenarios: 1-4 stations (EVSE/Deadband/FiniteRates, mixed voltages and phases), 0-3 mixed-sign constraints, "
                      f"1-6 sessions with back-to-back reuse and simultaneous events, Battery / two-stage batteries (noise off), periods 1/5/7.5, "
                      f"max_recompute None/1/2/3, scripted (partial, multi-period, over-long, empty schedules) / uncontrolled / sorted / round-robin schedulers",
                evaluations=evals, distinct_nontrivial=len(distinct), clause_evaluations=clause_evals, clauses=tags,
                wrapper_calls=calls, violations=viol, wall_s=round(time.time() - t0, 2))


def replay_file(doc):
    """Re-run a monitor replay file.  -> (reproduced: bool, text)"""
    if doc.get("kind") == "sim_monitor":
        sim, obs, cl = run_scenario(doc["scenario"], doc["property"])
        bad = [c for c in cl if not c[2] and c[1] == doc["clause"]]
        return bool(bad), "\n".join(f"{c[1]}: {c[3]}" for c in bad[:5]) or "clause holds on this tree"
    if doc.get("kind") == "fn_monitor":
        from . import fnmon
        return fnmon.replay(doc)
    raise ValueError("unknown replay kind")
