"""Scenario space of the bounded run-time contract monitors (DESIGN 4.4).

A scenario is a small JSON-able description: stations (mixed EVSE classes, voltages, phases), 0-3
three-phase constraints with mixed-sign coefficients, 1-6 sessions with back-to-back reuse and
simultaneous events, battery classes, period, scheduler and max_recompute.  `build(scn)` turns it into
real acnportal objects with the real constructors.  Everything is a function of the seed."""
from __future__ import annotations

import random
from copy import deepcopy
from datetime import datetime

PERIODS = [1, 5, 7.5]
PHASES = [30, -90, 150]
VOLTS = [208, 240, 120, 277]
START = datetime(2020, 3, 2, 8, 30)


def gen(seed: int, scheduler=None, max_stations=4, max_sessions=6, finite_only=False, distinct_keys=False, allow_deadband=True):
    r = random.Random(seed)
    n = r.randint(1, max_stations)
    stations = []
    for k in range(n):
        kinds = ["EVSE", "Finite", "Finite2"] + (["Deadband"] if allow_deadband and not finite_only else [])
        if finite_only:
            kinds = ["Finite", "Finite2"]
        kind = r.choice(kinds)
        st = dict(id=f"S{k}" if r.random() < 0.8 else f"Z{9 - k}", kind=kind, voltage=r.choice(VOLTS), phase=r.choice(PHASES))
        if kind == "EVSE":
            st["max_rate"] = r.choice([16, 32, 40, 64])
        elif kind == "Deadband":
            st["max_rate"] = r.choice([16, 32])
            st["deadband_end"] = r.choice([6, 8])
        elif kind == "Finite":
            st["rates"] = r.choice([[8, 16, 24, 32], [32, 6, 16, 6], list(range(6, 33, 2))])
        else:
            st["rates"] = [0, 8, 16, 24, 32]
        stations.append(st)
    ids = [s["id"] for s in stations]
    constraints = []
    for c in range(r.choice([0, 1, 1, 2, 3])):
        members = r.sample(ids, r.randint(1, n))
        coeffs = {m: r.choice([1, 1, 1, -1, 0.25, -0.25]) for m in members}
        constraints.append(dict(name=f"c{c}", coeffs=coeffs, limit=r.choice([20, 40, 60, 100])))
    period = r.choice(PERIODS)
    sessions = []
    free_at = {i: 0 for i in ids}
    t_arr = 0
    for j in range(r.randint(1, max_sessions)):
        sid = r.choice(ids)
        gap = r.choice([0, 0, 1, 2, 3])          # 0 = back-to-back reuse
        arrival = max(free_at[sid] + (gap if free_at[sid] > 0 or r.random() < 0.5 else 0), r.choice([0, t_arr]))
        if distinct_keys:
            arrival = max(arrival, t_arr + 1)
        stay = r.randint(1, 6)
        departure = arrival + stay
        free_at[sid] = departure
        t_arr = arrival
        energy = r.choice([0.05, 0.5, 2.0, 5.0, 12.0])
        btype = r.choice(["Battery", "Battery", "L2c", "L2s"])
        cap = energy + r.choice([0, 1.0, 10.0])
        init = cap - energy if btype != "Battery" or r.random() < 0.7 else 0.0
        sessions.append(dict(sid=f"s{j}" if r.random() < 0.7 else f"x{j}", station=sid, arrival=arrival, departure=departure,
                             energy=energy, est_dep=max(arrival + 1, departure + r.choice([0, 0, -1, 2])) if not distinct_keys else departure,
                             battery=dict(type=btype, cap=cap, init=max(0.0, init), pmax=r.choice([3.3, 6.6, 7.0, 10.0]),
                                          tr=r.choice([0.0, 0.5, 0.8]))))
    recompute_events = [r.randint(0, max(s["departure"] for s in sessions) + 1) for _ in range(r.choice([0, 0, 1, 2]))]
    if scheduler is None:
        scheduler = dict(kind="scripted", seed=r.randint(0, 10 ** 6))
    return dict(seed=seed, period=period, stations=stations, constraints=constraints, sessions=sessions,
                recompute_events=recompute_events, max_recompute=r.choice([None, None, 1, 2, 3]), scheduler=scheduler,
                store_history=r.random() < 0.5)


def make_evse(st):
    from acnportal import acnsim
    if st["kind"] == "EVSE":
        return acnsim.EVSE(st["id"], max_rate=st["max_rate"])
    if st["kind"] == "Deadband":
        return acnsim.DeadbandEVSE(st["id"], deadband_end=st["deadband_end"], max_rate=st["max_rate"])
    return acnsim.FiniteRatesEVSE(st["id"], list(st["rates"]))


def make_battery(b):
    from acnportal.acnsim.models.battery import Battery, Linear2StageBattery
    if b["type"] == "Battery":
        return Battery(b["cap"], b["init"], b["pmax"])
    return Linear2StageBattery(b["cap"], b["init"], b["pmax"], noise_level=0, transition_soc=b["tr"],
                               charge_calculation="continuous" if b["type"] == "L2c" else "stepwise")


def make_network(scn, station_order=None, constraint_order=None, cls=None):
    from acnportal import acnsim
    net = (cls or acnsim.ChargingNetwork)()
    sts = scn["stations"] if station_order is None else [scn["stations"][i] for i in station_order]
    for st in sts:
        net.register_evse(make_evse(st), st["voltage"], st["phase"])
    cons = scn["constraints"] if constraint_order is None else [scn["constraints"][i] for i in constraint_order]
    for c in cons:
        net.add_constraint(acnsim.Current(dict(c["coeffs"])), c["limit"], name=c["name"])
    return net


def make_events(scn, session_order=None, shift=0):
    from acnportal import acnsim
    ss = scn["sessions"] if session_order is None else [scn["sessions"][i] for i in session_order]
    evs = []
    for s in ss:
        ev = acnsim.EV(s["arrival"] + shift, s["departure"] + shift, s["energy"], s["station"], s["sid"], make_battery(s["battery"]),
                       estimated_departure=s["est_dep"] + shift)
        evs.append(acnsim.PluginEvent(s["arrival"] + shift, ev))
    for t in scn.get("recompute_events", []):
        evs.append(acnsim.RecomputeEvent(t + shift))
    return acnsim.EventQueue(evs)


class Scripted:
    """Deterministic scripted scheduler: the schedule is a function of (seed, period index - shift) only."""

    def __new__(cls, *a, **k):
        from acnportal.algorithms import BaseAlgorithm

        class _Scripted(BaseAlgorithm):
            def __init__(self, scn, shift=0, fail_at=None):
                super().__init__()
                self.scn, self.shift, self.fail_at, self.failed = scn, shift, fail_at, False
                self.max_recompute = scn["max_recompute"]

            def schedule(self, active_sessions):
                t = self.interface.current_time
                if self.fail_at is not None and t == self.fail_at and not self.failed:
                    self.failed = True
                    raise InterruptedError(f"scripted failure at {t}")
                return scripted_schedule(self.scn, t - self.shift)
        return _Scripted(*a, **k)


def scripted_schedule(scn, t):
    if t < 0:
        return {}                       # before the (shifted) origin of the scenario the script does nothing
    r = random.Random(scn["scheduler"].get("seed", 0) * 7919 + t)
    if r.random() < 0.08:
        return {}
    sts = list(scn["stations"])
    r.shuffle(sts)                                    # entry order of the mapping is incidental
    chosen = [s for s in sts if r.random() < 0.75] or sts[:1]
    horizon = max(s["departure"] for s in scn["sessions"]) + 1
    L = r.choice([1, 1, 2, 3, 4, horizon + 2])
    out = {}
    for st in chosen:
        vals = []
        for _ in range(L):
            if st["kind"] == "EVSE":
                v = r.choice([0, st["max_rate"], round(r.uniform(0, st["max_rate"]), 3), 6])
            elif st["kind"] == "Deadband":
                v = r.choice([0, st["max_rate"], st["deadband_end"], round(r.uniform(st["deadband_end"], st["max_rate"]), 3)])
            else:
                v = r.choice([0] + list(st["rates"]))
            vals.append(r.choice([v, float(v), v]))
        out[st["id"]] = vals
    return out


def make_scheduler(scn, shift=0, fail_at=None):
    from acnportal import algorithms as alg
    k = scn["scheduler"]
    if k["kind"] == "scripted":
        return Scripted(scn, shift=shift, fail_at=fail_at)
    if k["kind"] == "uncontrolled":
        s = alg.UncontrolledCharging()
    else:
        sort_fn = getattr(alg, k["sort"])
        kw = dict(estimate_max_rate=bool(k.get("estimate")), uninterrupted_charging=bool(k.get("uninterrupted")))
        if k.get("estimate"):
            kw["max_rate_estimator"] = alg.SimpleRampdown()
        s = (alg.RoundRobin if k["kind"] == "rr" else alg.SortedSchedulingAlgo)(sort_fn, **kw)
    s.max_recompute = scn["max_recompute"] if scn["max_recompute"] is not None else 1
    if fail_at is not None:
        orig = s.schedule
        state = dict(failed=False)

        def failing(active_sessions):
            if s.interface.current_time == fail_at and not state["failed"]:
                state["failed"] = True
                raise InterruptedError(f"injected failure at {fail_at}")
            return orig(active_sessions)
        s.schedule = failing
    return s


def build(scn, station_order=None, constraint_order=None, session_order=None, shift=0, fail_at=None, network_cls=None):
    from acnportal import acnsim
    net = make_network(scn, station_order, constraint_order, cls=network_cls)
    q = make_events(scn, session_order, shift)
    sch = make_scheduler(scn, shift=shift, fail_at=fail_at)
    sim = acnsim.Simulator(net, sch, q, START, period=scn["period"], verbose=False, store_schedule_history=scn.get("store_history", False))
    return sim


SORTS = ["first_come_first_served", "last_come_first_served", "earliest_deadline_first", "least_laxity_first",
         "largest_remaining_processing_time"]
