"""Run-time contract monitors on the real functions: the labelled *bounded* stand-in (never counted as proved)."""
