"""Run-time contract monitor for the sorting-based algorithms (C07 safety of emitted schedules, C08 priority allocation).
Every call of the real `schedule()` made during seeded simulations is checked against the postconditions of DESIGN 6 C07/C08.
Bounded stand-in; same result format as rt.drivers.sim_monitor."""
from __future__ import annotations

import random
import time
import warnings
from collections import deque

import numpy as np

from . import scen
from .drivers import write_replay, harness_fault
from .netmon import spec_feasible

ALG_VT, ALG_RT = 1e-5, 1e-7          # tolerances of the algorithm-side feasibility check (its documented defaults)


def _keys(sort, sess, iface):
    t = iface.current_time
    rap = lambda s: iface.remaining_amp_periods(s)
    mp = lambda s: iface.max_pilot_signal(s.station_id)
    if sort == "first_come_first_served":
        return [s.arrival for s in sess], False
    if sort == "last_come_first_served":
        return [s.arrival for s in sess], True
    if sort == "earliest_deadline_first":
        return [s.estimated_departure for s in sess], False
    if sort == "least_laxity_first":
        return [(s.estimated_departure - t) - rap(s) / mp(s) for s in sess], False
    return [rap(s) / mp(s) for s in sess], True            # largest remaining processing time first


def _feas(ctx, vec):
    ids, phases, rows = ctx
    ok, _ = spec_feasible(ids, phases, rows, [[float(x)] for x in vec], ALG_VT, ALG_RT)
    return ok


def check_call(sim, scn, sch, active, out, kind, opts):
    """-> list of (property, tag, ok, detail) for one schedule() call"""
    res = []

    def add(prop, tag, ok, detail=""):
        res.append((prop, tag, bool(ok), "" if ok else detail))

    net = sim.network
    iface = sch.interface
    ids = list(net.station_ids)
    phases = [float(p) for p in net._phase_angles]
    rows = [(c["name"], c["coeffs"], c["limit"]) for c in scn["constraints"]]
    ctx = (ids, phases, rows)
    by_station = {s.station_id: s for s in active}
    if kind == "uncontrolled":
        add("C08", "uncontrolled_keys_are_the_active_stations", set(out.keys()) == set(by_station), f"{sorted(out)} vs {sorted(by_station)}")
        for st, v in out.items():
            add("C08", "uncontrolled_gives_station_maximum", list(v) == [iface.max_pilot_signal(st)], f"{st}: {v} vs {iface.max_pilot_signal(st)}")
        return res
    # ---------------- C07
    add("C07", "every_station_is_a_key_with_one_value", set(out.keys()) == set(ids) and all(len(v) == 1 for v in out.values()), f"{ {k: len(v) for k, v in out.items()} }")
    if not (set(out.keys()) == set(ids) and all(len(v) == 1 for v in out.values())):
        return res
    vec = [float(out[s][0]) for s in ids]
    add("C07", "schedule_is_feasible_for_the_network", bool(net.is_feasible(np.array(vec).reshape(-1, 1))), f"{dict(zip(ids, vec))}")
    infra = iface.infrastructure_info()
    for k, s in enumerate(ids):
        evse = net._EVSEs[s]
        add("C07", "pilot_is_accepted_by_the_evse", bool(evse._valid_rate(vec[k])), f"{s} ({type(evse).__name__}): {vec[k]}")
        if s not in by_station:
            add("C07", "zero_for_stations_without_active_session", vec[k] == 0, f"{s}: {vec[k]}")
            continue
        x = by_station[s]
        rap = iface.remaining_amp_periods(x)
        add("C07", "never_above_remaining_amp_periods", vec[k] <= rap + 1e-9 * max(1, rap), f"{s}: pilot {vec[k]} remaining demand {rap} amp-periods")
        if opts.get("estimate"):
            est = sch.max_rate_estimator.upper_bounds.get(x.session_id, float("inf"))
            floor = float(infra.min_pilot[k]) if opts.get("uninterrupted") else 0.0
            add("C07", "never_above_estimator_bound_or_minimum_pilot", vec[k] <= max(est, floor) + 1e-9, f"{s}/{x.session_id}: pilot {vec[k]} estimator bound {est} minimum pilot {floor}")
    return res


def check_alloc(sim, scn, sch, sessions, arr, kind, opts):
    """C08 clauses for one call of sorting_algorithm / round_robin: `sessions` are the preprocessed sessions the real method received
    (their min_rates[0] / max_rates[0] are the lower / upper bounds the property calls 'its own bound'), `arr` the returned array."""
    res = []

    def add(prop, tag, ok, detail=""):
        res.append((prop, tag, bool(ok), "" if ok else detail))

    net = sim.network
    iface = sch.interface
    ids = list(net.station_ids)
    phases = [float(p) for p in net._phase_angles]
    rows = [(c["name"], c["coeffs"], c["limit"]) for c in scn["constraints"]]
    ctx = (ids, phases, rows)
    infra = iface.infrastructure_info()
    vec = [float(x) for x in arr]
    live = list(sessions)
    keys, rev = _keys(opts["sort"], live, iface)
    if len(set(round(float(v), 9) for v in keys)) != len(keys):
        return res                                   # ties: the property speaks about distinct priority keys
    order = [x for _, x in sorted(zip(keys, live), key=lambda p: p[0], reverse=rev)]
    lbs = {x.station_id: max(0.0, float(x.min_rates[0])) for x in order}
    if kind == "sorted":
        ref = [0.0] * len(ids)
        for x in order:
            ref[ids.index(x.station_id)] = lbs[x.station_id]
        if not _feas(ctx, ref):
            return res
        for x in order:
            k = ids.index(x.station_id)
            lb = lbs[x.station_id]
            ub = min(float(x.max_rates[0]), iface.remaining_amp_periods(x))
            if bool(infra.is_continuous[k]):
                trial = list(ref); trial[k] = ub
                if _feas(ctx, trial):
                    add("C08", "greedy_grants_upper_bound_when_feasible", abs(vec[k] - ub) <= 1e-9 * max(1, ub), f"{x.station_id}: got {vec[k]}, bound {ub} is feasible")
                elif ub > lb:
                    t1 = list(ref); t1[k] = vec[k]
                    t2 = list(ref); t2[k] = vec[k] + 0.01 + 1e-6
                    add("C08", "greedy_continuous_within_bisection_tolerance_of_the_largest_feasible", _feas(ctx, t1) and not _feas(ctx, t2) and lb - 1e-9 <= vec[k] <= ub,
                        f"{x.station_id}: got {vec[k]} (feasible {_feas(ctx, t1)}), {vec[k] + 0.01} feasible {_feas(ctx, t2)}")
                ref[k] = vec[k]
            else:
                levels = [float(a) for a in infra.allowable_pilots[k] if lb <= a <= ub]
                best = 0.0
                for a in sorted(levels):
                    trial = list(ref); trial[k] = a
                    if _feas(ctx, trial):
                        best = max(best, a)
                add("C08", "greedy_grants_largest_feasible_allowable_level_in_priority_order", vec[k] == best,
                    f"{x.station_id} (priority {order.index(x)}, bounds [{lb}, {ub}]): got {vec[k]}, largest feasible level given higher priorities {best}")
                ref[k] = vec[k]
    elif kind == "rr":
        if any(bool(infra.is_continuous[ids.index(x.station_id)]) for x in order):
            return res
        levels, idx, ref = {}, {}, [0.0] * len(ids)
        for x in order:
            k = ids.index(x.station_id)
            ub = min(float(x.max_rates[0]), float(infra.max_pilot[k]), iface.remaining_amp_periods(x))
            levels[k] = sorted(float(a) for a in infra.allowable_pilots[k] if lbs[x.station_id] <= a <= ub)
            idx[k] = 0
            ref[k] = levels[k][0] if levels[k] else 0.0
        if not _feas(ctx, ref):
            return res
        q = deque(order)
        while q:
            x = q.popleft()
            k = ids.index(x.station_id)
            if idx[k] < len(levels[k]) - 1:
                trial = list(ref); trial[k] = levels[k][idx[k] + 1]
                if _feas(ctx, trial):
                    idx[k] += 1; ref = trial; q.append(x)
        add("C08", "round_robin_raises_one_level_at_a_time_and_stops_only_when_blocked", vec == ref, f"got {dict(zip(ids, vec))}, level-by-level reference {dict(zip(ids, ref))}")
    return res


class RandomEstimator:
    """a user-supplied estimator: arbitrary non-negative bounds keyed by session id"""

    def __init__(self, bounds):
        self.upper_bounds = bounds

    def register_interface(self, interface):
        self.interface = interface

    def get_maximum_rates(self, sessions):
        return {s.session_id: self.upper_bounds[s.session_id] for s in sessions}


def syn_state(seed, prop):
    """A directly constructed scheduling state: every station occupied by a partially served session, mixed EVSE types, mixed
    voltages, one to three binding constraints.  -> (sim, scn-like dict, kind, opts)"""
    from datetime import datetime
    from acnportal import acnsim, algorithms as alg
    r = random.Random(seed)
    n = r.randint(2, 5)
    net = acnsim.ChargingNetwork()
    stations = []
    for k in range(n):
        kind = r.choice(["AV", "CC", "CONT", "F2"])
        sid = f"{kind}-{k}"
        if kind == "AV":
            e = acnsim.FiniteRatesEVSE(sid, [0] + list(range(6, 33)))
        elif kind == "CC":
            e = acnsim.FiniteRatesEVSE(sid, [0, 8, 16, 24, 32])
        elif kind == "F2":
            e = acnsim.FiniteRatesEVSE(sid, r.choice([[6, 12, 18, 24], [10, 20, 30], [7, 32]]))
        else:
            e = acnsim.EVSE(sid, max_rate=r.choice([16, 32, 40]))
        v, ph = r.choice([208, 208, 240, 416, 120]), r.choice([30, -90, 150, 0])
        net.register_evse(e, v, ph)
        stations.append(dict(id=sid, voltage=v, phase=ph))
    ids = [s["id"] for s in stations]
    cons = []
    for c in range(r.randint(1, 3)):
        members = r.sample(ids, r.randint(2, n)) if n >= 2 else ids
        coeffs = {m: r.choice([1, 1, 1, -1, 0.5, 2, -2]) for m in members}          # weights above 1 occur (primary side of a delta-wye transformer)
        lim = r.choice([r.randint(8, 120), round(r.uniform(8, 90), 1)])
        net.add_constraint(acnsim.Current(dict(coeffs)), lim, name=f"c{c}")
        cons.append(dict(name=f"c{c}", coeffs=coeffs, limit=lim))
    occupied = [s for s in ids if r.random() < 0.85] or ids[:1]
    arrs = r.sample(range(0, 3 * n + 3), len(occupied))
    deps = r.sample(range(40, 40 + 5 * n + 5), len(occupied))
    bounds = {}
    for j, sid in enumerate(occupied):
        req = round(r.uniform(0.5, 25), 2)
        ev = acnsim.EV(arrs[j], deps[j], req, sid, f"sess{j}", acnsim.Battery(100, 0, 100), estimated_departure=deps[j] + r.choice([0, 0, -7, 9]))
        ev._energy_delivered = round(r.choice([0, 0, r.uniform(0, req), req - r.choice([0.002, 0.02, 0.3])]), 4)
        ev._energy_delivered = max(0.0, min(ev._energy_delivered, req))
        net.plugin(ev)
        bounds[f"sess{j}"] = r.choice([0.0, 3.0, 7.5, 12.0, 40.0])
    kind = r.choice(["sorted", "sorted", "rr"])
    opts = dict(sort=r.choice(scen.SORTS), estimate=r.random() < 0.35, uninterrupted=r.random() < 0.5)
    kw = dict(estimate_max_rate=opts["estimate"], uninterrupted_charging=opts["uninterrupted"])
    if opts["estimate"]:
        kw["max_rate_estimator"] = RandomEstimator(bounds)
    sch = (alg.RoundRobin if kind == "rr" else alg.SortedSchedulingAlgo)(getattr(alg, opts["sort"]), **kw)
    sim = acnsim.Simulator(net, sch, acnsim.EventQueue(), datetime(2020, 1, 1), period=r.choice([1, 5, 15]), verbose=False)
    sim._iteration = 20
    return sim, dict(seed=seed, constraints=cons, stations=stations), kind, opts


def run_syn(seed, prop):
    sim, scn, kind, opts = syn_state(seed, prop)
    sch = sim.scheduler
    found = []
    orig = sch.schedule

    def wrapped(active_sessions):
        import copy
        snap = copy.deepcopy(active_sessions)
        out = orig(active_sessions)
        found.extend(check_call(sim, scn, sch, snap, out, kind, opts))
        return out
    sch.schedule = wrapped
    _wrap_alloc(sim, scn, sch, kind, opts, found)
    try:
        with warnings.catch_warnings():
            warnings.simplefilter("ignore")
            sch.run()
            if seed % 2:
                # the limits of the network are tightened AFTER the algorithm has already looked at it (a constraint updated under its own name): the
                # next schedule has to respect the network as it is now
                from acnportal import acnsim
                for c in scn["constraints"]:
                    c["limit"] = c["limit"] / 2
                    sim.network.update_constraint(c["name"], acnsim.Current(dict(c["coeffs"])), c["limit"])
                sch.run()
    except ValueError as e:
        if "lower bound is not feasible" not in str(e):        # documented outcome when the vector of lower bounds is infeasible
            found.append(("C07", "schedule_call_raises_nothing_else", False, f"{type(e).__name__}: {e}"))
    if prop == "C08" and seed % 3 == 0:
        found.extend(_uncontrolled_rebound(seed))
    return found, (kind, opts["sort"], opts["estimate"], opts["uninterrupted"], len(scn["stations"]), len(scn["constraints"]))


def _uncontrolled_rebound(seed):
    """C08: ONE UncontrolledCharging object used on a first site and then registered with a second site that reuses the station ids with other EVSEs:
    every active session gets exactly ITS station's maximum pilot on the site the algorithm is attached to now"""
    from datetime import datetime
    from acnportal import acnsim
    from acnportal import algorithms as alg
    r = random.Random(seed * 7 + 1)
    ids = [f"U{k}" for k in range(r.randint(2, 4))]
    sch = alg.UncontrolledCharging()
    out = []
    for site in range(2):
        net = acnsim.ChargingNetwork()
        maxes = {}
        for sid in ids:
            if r.random() < 0.3:
                rates = sorted(r.sample([8, 16, 24, 32, 40], r.randint(2, 4)))
                net.register_evse(acnsim.FiniteRatesEVSE(sid, rates), 208, 0)
                maxes[sid] = max(rates)
            else:
                mx = r.choice([16, 32, 48, 80])
                net.register_evse(acnsim.EVSE(sid, max_rate=mx), 208, 0)
                maxes[sid] = mx
        active = [sid for sid in ids if r.random() < 0.8] or ids[:1]
        for j, sid in enumerate(active):
            net.plugin(acnsim.EV(0, 30, 20.0, sid, f"u{site}_{j}", acnsim.Battery(100, 0, 100)))
        sim = acnsim.Simulator(net, sch, acnsim.EventQueue(), datetime(2020, 1, 1), period=5, verbose=False)
        got = sch.run()
        ok = set(got) == set(active) and all(list(got[sid]) == [maxes[sid]] for sid in active)
        out.append(("C08", "uncontrolled_gives_station_maximum_on_the_site_it_is_attached_to", ok, "" if ok else f"site {site + 1}: got {got}, station maxima {maxes}, active {active}"))
    return out


def _wrap_alloc(sim, scn, sch, kind, opts, found):
    import copy
    name = {"sorted": "sorting_algorithm", "rr": "round_robin"}.get(kind)
    if name is None:
        return
    orig = getattr(sch, name)

    def wrapped(active_sessions, infrastructure):
        snap = copy.deepcopy(active_sessions)
        arr = orig(active_sessions, infrastructure)
        found.extend(check_alloc(sim, scn, sch, snap, arr, kind, opts))
        return arr
    setattr(sch, name, wrapped)


def algo_monitor(task):
    prop, tier, seed0 = task["prop"], task.get("tier", "quick"), int(task.get("seed", 0))
    n = 200 if tier == "quick" else 5000
    t0 = time.time()
    evals = calls = 0
    viol, distinct, tags = [], set(), {}
    for k in range(n):
        r = random.Random(seed0 * 100003 + k)
        kind = r.choice(["sorted", "sorted", "rr", "uncontrolled"] if prop == "C08" else ["sorted", "sorted", "rr"])
        opts = dict(sort=r.choice(scen.SORTS), estimate=r.random() < 0.4, uninterrupted=r.random() < 0.4)
        sc_kind = dict(kind=kind, sort=opts["sort"], estimate=opts["estimate"], uninterrupted=opts["uninterrupted"])
        scn = scen.gen(seed0 * 100003 + k, scheduler=sc_kind, allow_deadband=False, distinct_keys=(prop == "C08"))
        if prop == "C08" and r.random() < 0.5:
            for st in scn["stations"]:
                if st["kind"] == "EVSE":
                    st["kind"], st["rates"] = "Finite", [8, 16, 24, 32]
        try:
            with warnings.catch_warnings(record=True) as wl:
                warnings.simplefilter("always")
                sim = scen.build(scn)
                sch = sim.scheduler
                orig = sch.schedule
                found = []

                def wrapped(active_sessions, _orig=orig, _sim=sim, _sch=sch):
                    import copy
                    snap = copy.deepcopy(active_sessions)
                    out = _orig(active_sessions)
                    found.extend(check_call(_sim, scn, _sch, snap, out, kind, opts))
                    return out
                sch.schedule = wrapped
                _wrap_alloc(sim, scn, sch, kind, opts, found)
                sim.run()
        except Exception as e:
            if harness_fault(e):
                return dict(label=task.get("label", "algo_monitor"), error=f"scenario {k}: {type(e).__name__}: {e}")
            found = [("C07", "simulation_under_sorted_algorithms_raises_nothing", False, f"{type(e).__name__}: {e}")]
            wl = []
        evals += 1
        distinct.add((kind, opts["sort"], opts["estimate"], opts["uninterrupted"], len(scn["stations"]), len(scn["sessions"]), len(scn["constraints"])))
        if kind != "uncontrolled":
            found.append(("C07", "no_infeasible_schedule_warning", not any("Invalid schedule" in str(w.message) for w in wl), ""))
        for (p, tag, ok, detail) in found:
            if p != prop:
                continue
            calls += 1
            tags[tag] = tags.get(tag, 0) + 1
            if not ok and len(viol) < 5:
                rp = write_replay(prop, f"algo_{tag[:40]}_{scn['seed']}.json", dict(kind="algo_monitor", property=prop, clause=tag, detail=detail, scenario=scn, opts=opts, sched_kind=kind))
                viol.append(dict(what=f"{tag}: {detail}"[:300], replay=rp))
    n_syn = 2500 if tier == "quick" else 60000
    for k in range(n_syn):
        seed = seed0 * 100003 + k
        try:
            found, shape = run_syn(seed, prop)
        except Exception as e:
            if harness_fault(e):
                return dict(label=task.get("label", "algo_monitor"), error=f"synthetic state {seed}: {type(e).__name__}: {e}")
            found, shape = [("C07", "schedule_call_raises_nothing_else", False, f"{type(e).__name__}: {e}")], ("exc",)
        evals += 1
        distinct.add(shape)
        for (p, tag, ok, detail) in found:
            if p != prop:
                continue
            calls += 1
            tags[tag] = tags.get(tag, 0) + 1
            if not ok and len(viol) < 5:
                rp = write_replay(prop, f"algo_syn_{tag[:40]}_{seed}.json", dict(kind="algo_monitor", synthetic=True, property=prop, clause=tag, detail=detail, seed=seed))
                viol.append(dict(what=f"{tag}: {detail}"[:300], replay=rp))
    return dict(label=task.get("label", "algo_monitor"),
                bound=f"{n_syn} directly constructed scheduling states (2-5 occupied stations of AeroVironment / ClipperCreek / other finite-rate / continuous EVSEs, voltages "
                      f"120-416 V, 1-3 binding mixed-sign constraints, partially served and nearly finished sessions, arbitrary estimator bounds) and {n} seeded simulations (1-4 stations, continuous-from-zero and finite-rate EVSEs, 0-3 mixed-sign constraints, 1-6 sessions), greedy / round robin"
                      f"{' / uncontrolled' if prop == 'C08' else ''}, all five sort orders" + (", estimator and uninterrupted charging on/off" if prop == "C07" else ", distinct priority keys") +
                      "; every schedule() call checked",
                evaluations=evals, distinct_nontrivial=len(distinct), clause_evaluations=calls, clauses=tags, violations=viol, wall_s=round(time.time() - t0, 2))


def replay(doc):
    if doc.get("synthetic"):
        found, _ = run_syn(doc["seed"], doc["property"])
        hit = [f for f in found if f[0] == doc["property"] and f[1] == doc["clause"] and not f[2]]
        return bool(hit), "\n".join(f"{f[1]}: {f[3]}" for f in hit[:5]) or "clause holds on this tree"
    scn, kind, opts, prop = doc["scenario"], doc["sched_kind"], doc["opts"], doc["property"]
    found = []
    with warnings.catch_warnings():
        warnings.simplefilter("ignore")
        sim = scen.build(scn)
        sch = sim.scheduler
        orig = sch.schedule

        def wrapped(active_sessions):
            import copy
            snap = copy.deepcopy(active_sessions)
            out = orig(active_sessions)
            found.extend(check_call(sim, scn, sch, snap, out, kind, opts))
            return out
        sch.schedule = wrapped
        _wrap_alloc(sim, scn, sch, kind, opts, found)
        try:
            sim.run()
        except Exception as e:
            if harness_fault(e):
                raise
            found.append(("C07", "simulation_under_sorted_algorithms_raises_nothing", False, f"{type(e).__name__}: {e}"))
    hit = [f for f in found if f[0] == prop and f[1] == doc["clause"] and not f[2]]
    return bool(hit), "\n".join(f"{f[1]}: {f[3]}" for f in hit[:5]) or "clause holds on this tree"
