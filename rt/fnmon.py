"""Function-level run-time contract monitors (bounded stand-ins for what the real-arithmetic proofs cannot see:
IEEE special values such as the default max_rate=inf, exact float boundaries) and for functions outside the
deductive reach.  Same result format as rt.drivers.sim_monitor."""
from __future__ import annotations

import copy
import itertools
import math
import random
import time

from .drivers import write_replay

ATOL = 1e-3


def _snap(e):
    ev = e._ev
    return (e._current_pilot, None if ev is None else (id(ev), ev._energy_delivered, ev._current_charging_rate,
                                                         ev._battery._current_charge, ev._battery._current_charging_power))


def evse_cases():
    from acnportal import acnsim
    inf = float("inf")
    out = []
    for mx, mn in [(32, 0), (inf, 0), (16, 6), (40.5, 0.0), (8, 8)]:
        out.append(("EVSE", dict(max_rate=mx, min_rate=mn), lambda sid, mx=mx, mn=mn: acnsim.EVSE(sid, max_rate=mx, min_rate=mn)))
    out.append(("EVSE", dict(default=True), lambda sid: acnsim.EVSE(sid)))
    for db, mx in [(6, 32), (6, inf), (8, 16), (6, 6)]:
        out.append(("DeadbandEVSE", dict(deadband_end=db, max_rate=mx), lambda sid, db=db, mx=mx: acnsim.DeadbandEVSE(sid, deadband_end=db, max_rate=mx)))
    out.append(("DeadbandEVSE", dict(default=True), lambda sid: acnsim.DeadbandEVSE(sid)))
    for rates in [[8, 16, 24, 32], [32, 6, 16, 6], [0, 8, 8, 48], [], [5.5], list(range(6, 33))]:
        out.append(("FiniteRatesEVSE", dict(rates=rates), lambda sid, rates=rates: acnsim.FiniteRatesEVSE(sid, list(rates))))
    return out


def spec_accepts(kind, e, p):
    """Acceptance predicate written from the property: within 1e-3 A of the allowable set."""
    if math.isnan(p):
        return False
    if kind == "EVSE":
        return e.min_rate - ATOL <= p <= e.max_rate + ATOL
    if kind == "DeadbandEVSE":
        return abs(p) <= ATOL or (e.deadband_end - ATOL <= p <= e.max_rate + ATOL)
    return any(abs(p - a) <= ATOL for a in e.allowable_rates)


def boundaries(kind, e):
    if kind == "EVSE":
        return [e.min_rate, e.max_rate, 0]
    if kind == "DeadbandEVSE":
        return [0, e.deadband_end, e.max_rate]
    return list(e.allowable_rates)


def evse_monitor(task):
    """C13 clauses on the real EVSE classes at and around every boundary (offsets well inside / outside the 1e-3 band; the
    exact band edge is float-fragile and is left to the real-arithmetic proof)."""
    from acnportal import acnsim
    from acnportal.acnsim.models.evse import InvalidRateError, StationOccupiedError
    t0 = time.time()
    prop = task["prop"]
    offs = [0.0, 4e-4, -4e-4, 9e-4, -9e-4, 1.1e-3, -1.1e-3, 2e-3, -2e-3, 0.5, -0.5]
    evals = 0
    viol = []
    distinct = set()

    def bad(tag, detail, case):
        if len(viol) < 5:
            rp = write_replay(prop, f"fnmon_{tag}_{len(viol)}.json", dict(kind="fn_monitor", monitor="evse_monitor", property=prop, clause=tag, detail=detail, case=str(case)))
            viol.append(dict(what=f"{tag}: {detail}"[:300], replay=rp))

    for kind, params, mk in evse_cases():
        e0 = mk("st")
        # invariants established by the constructor
        if kind == "FiniteRatesEVSE":
            r = list(e0.allowable_rates)
            ok = 0 in r and all(a < b for a, b in zip(r, r[1:])) and set(r) == set(params["rates"]) | {0}
            evals += 1
            if not ok:
                bad("finite_list_sorted_distinct_with_zero", f"{params} -> {r}", params)
        adv = [v for v in list(e0.allowable_pilot_signals) + [e0.max_rate]]
        for v in adv:
            evals += 1
            if not e0._valid_rate(v):
                bad("advertised_value_is_accepted", f"{kind}{params}: advertised {v} is rejected", params)
        for b in boundaries(kind, e0):
            if not math.isfinite(b):
                pilots = [b, 1e12]
            else:
                pilots = [b + o for o in offs]
            for occupied in (False, True):
                for p in pilots:
                    e = mk("st")
                    ev = None
                    if occupied:
                        ev = acnsim.EV(0, 10, 5.0, "st", "s1", acnsim.Battery(100, 10, 7))
                        e.plugin(ev)
                    before = _snap(e)
                    want = spec_accepts(kind, e, p)
                    evals += 1
                    distinct.add((kind, str(params), round(p - b, 6) if math.isfinite(b) else "inf", occupied))
                    try:
                        e.set_pilot(p, 208, 5)
                        raised = None
                    except InvalidRateError:
                        raised = "InvalidRateError"
                    except Exception as x:
                        raised = type(x).__name__
                    if want and raised is not None and not (p < 0 and occupied):
                        bad("accepts_within_1e-3_of_allowable_set", f"{kind}{params}: pilot {p!r} rejected ({raised})", params)
                    if not want:
                        if raised != "InvalidRateError":
                            bad("rejects_outside_allowable_set", f"{kind}{params}: pilot {p!r} -> {raised}", params)
                        elif _snap(e) != before:
                            bad("rejected_pilot_changes_nothing", f"{kind}{params}: pilot {p!r}: {before} -> {_snap(e)}", params)
                    if want and raised is None and e._current_pilot != p:
                        bad("accepted_pilot_recorded", f"{kind}{params}: {p} recorded as {e._current_pilot}", params)
        # plug-in refusal
        e = mk("st")
        a = acnsim.EV(0, 10, 5.0, "st", "s1", acnsim.Battery(100, 10, 7))
        b2 = acnsim.EV(0, 10, 5.0, "st", "s2", acnsim.Battery(100, 10, 7))
        e.plugin(a)
        evals += 1
        try:
            e.plugin(b2)
            bad("plugin_on_occupied_refused", f"{kind}{params}: second plugin accepted", params)
        except StationOccupiedError:
            if e.ev is not a:
                bad("plugin_on_occupied_keeps_occupant", f"{kind}{params}", params)
    return dict(label=task.get("label", "evse_monitor"),
                bound="16 parameter sets over the three EVSE classes (incl. default max_rate=inf, min_rate>0, unsorted/duplicated/empty/zero-free rate lists) x "
                      "every boundary x 11 offsets in {0, +-4e-4, +-9e-4, +-1.1e-3, +-2e-3, +-0.5} x vacant/occupied",
                evaluations=evals, distinct_nontrivial=len(distinct), violations=viol, wall_s=round(time.time() - t0, 2))


def replay(doc):
    r = globals()[doc["monitor"]](dict(prop=doc["property"]))
    hit = [v for v in r["violations"] if v["what"].startswith(doc["clause"])]
    return bool(hit), "\n".join(v["what"] for v in hit) or "clause holds on this tree"


# ============================================================================ C11: event queue against a list model
def queue_monitor(task):
    """Random interleavings of every EventQueue operation (and JSON round trips) against the pending-set model."""
    from acnportal import acnsim
    from acnportal.acnsim.events import EventQueue, PluginEvent, UnplugEvent, RecomputeEvent, Event
    t0 = time.time()
    prop, tier, seed0 = task["prop"], task.get("tier", "quick"), int(task.get("seed", 0))
    n = 150 if tier == "quick" else 4000
    evals = 0
    viol = []
    distinct = set()

    def bad(tag, detail, seed):
        if len(viol) < 5:
            rp = write_replay(prop, f"fnmon_{tag}_{seed}.json", dict(kind="fn_monitor", monitor="queue_monitor", property=prop, clause=tag, detail=detail, seed=seed))
            viol.append(dict(what=f"{tag}: {detail}"[:300], replay=rp))

    def key(e):
        return (e.timestamp, e.precedence)

    for k in range(n):
        seed = seed0 * 100003 + k
        r = random.Random(seed)
        q = EventQueue()
        pending = []          # model: list of event objects
        ops = []
        uid = 0
        for step in range(r.randint(3, 25)):
            op = r.choice(["add", "add", "adds", "get", "cur", "cur", "json", "last", "len"])
            ops.append(op)
            evals += 1

            def mk():
                nonlocal uid
                uid += 1
                ts = r.randint(0, 12)
                c = r.choice(["P", "U", "R", "E"])
                if c == "R":
                    return RecomputeEvent(ts)
                if c == "E":
                    return Event(ts)
                ev = acnsim.EV(ts, ts + 3, 5.0, "st", f"s{uid}", acnsim.Battery(10, 0, 7))
                return PluginEvent(ts, ev) if c == "P" else UnplugEvent(ts, ev)
            if op == "add":
                e = mk(); q.add_event(e); pending.append(e)
            elif op == "adds":
                es = [mk() for _ in range(r.randint(0, 4))]; q.add_events(es); pending.extend(es)
            elif op == "get":
                if not pending:
                    try:
                        q.get_event(); bad("get_on_empty_raises", "no exception", seed)
                    except IndexError:
                        pass
                    continue
                e = q.get_event()
                if e not in pending or any(key(x) < key(e) for x in pending):
                    bad("get_event_returns_time_then_precedence_minimum", f"got {key(e)} pending {sorted(map(key, pending))}", seed)
                if e in pending:
                    pending.remove(e)
            elif op == "cur":
                t = r.randint(0, 13)
                got = q.get_current_events(t)
                want = [x for x in pending if x.timestamp <= t]
                if sorted(map(id, got)) != sorted(map(id, want)):
                    bad("current_events_are_exactly_the_pending_with_ts<=t", f"t={t} got {[key(x) for x in got]} want {sorted(key(x) for x in want)}", seed)
                if any(key(got[i]) > key(got[i + 1]) for i in range(len(got) - 1)):
                    bad("current_events_sorted_time_then_precedence", f"{[key(x) for x in got]}", seed)
                for x in got:
                    if x in pending:
                        pending.remove(x)
            elif op == "json":
                before = [(ts, type(e).__name__, e.precedence, getattr(getattr(e, "ev", None), "session_id", None)) for ts, e in q._queue]
                q2 = EventQueue.from_json(q.to_json())
                after = [(ts, type(e).__name__, e.precedence, getattr(getattr(e, "ev", None), "session_id", None)) for ts, e in q2._queue]
                if before != after or q2._timestep != q._timestep:
                    bad("json_round_trip_keeps_heap_array", f"{before} -> {after}", seed)
                # continue with the restored queue: it must behave identically
                m = {}
                for (ts, e), (ts2, e2) in zip(q._queue, q2._queue):
                    m[id(e)] = e2
                pending = [m.get(id(e), e) for e in pending]
                q = q2
            elif op == "last":
                got = q.get_last_timestamp()
                want = max((x.timestamp for x in pending), default=None)
                if got != want:
                    bad("last_timestamp_reflects_pending", f"got {got} want {want}", seed)
            if len(q) != len(pending) or q.empty() != (not pending):
                bad("len_and_empty_reflect_pending", f"len {len(q)} empty {q.empty()} model {len(pending)}", seed)
        distinct.add(tuple(ops))
    return dict(label=task.get("label", "queue_monitor"),
                bound=f"{n} seeded operation sequences of 3-25 steps over add_event/add_events/get_event/get_current_events/len/empty/"
                      f"get_last_timestamp/JSON round trip, timestamps 0..12 with ties, all four event classes",
                evaluations=evals, distinct_nontrivial=len(distinct), violations=viol, wall_s=round(time.time() - t0, 2))


# ============================================================================ C19: stochastic space assignment
def _sn_state(net):
    occ = {k: (None if e._ev is None else e._ev._session_id) for k, e in net._EVSEs.items()}
    return occ, list(net.waiting_queue.keys()), (net.swaps, net.never_charged, net.early_unplug)


def _sn_invariant(net, arrived, departed):
    occ, waiting, _ = _sn_state(net)
    conn = [v for v in occ.values() if v is not None]
    if len(conn) != len(set(conn)):
        return f"an EV is connected to two stations: {occ}"
    if set(conn) & set(waiting):
        return f"an EV is both connected and waiting: {occ} {waiting}"
    if len(waiting) != len(set(waiting)):
        return f"duplicate in waiting queue {waiting}"
    if waiting and any(v is None for v in occ.values()):
        return f"an EV waits while a station is free: {occ} waiting {waiting}"
    for k, e in net._EVSEs.items():
        if e._ev is not None and e._ev.station_id != k:
            return f"occupant of {k} believes it is at {e._ev.station_id}"
    for sid, ev in net.waiting_queue.items():
        if ev.station_id is not None or ev.session_id != sid:
            return f"waiting EV {sid} has station {ev.station_id}"
    here = set(conn) | set(waiting)
    if here != set(arrived) - set(departed):
        return f"present {sorted(here)} != arrived-departed {sorted(set(arrived) - set(departed))}"
    return None


def stochastic_monitor(task):
    """Random plugin / unplug / charge-to-full / post_charging_update sequences on the real StochasticNetwork against the
    first-come-first-served model; the free station chosen by random.choice is read back (so every seed is covered up to the bound)."""
    import random as pyrandom
    from acnportal import acnsim
    from acnportal.contrib.acnsim.network.stochastic_network import StochasticNetwork
    t0 = time.time()
    prop, tier, seed0 = task["prop"], task.get("tier", "quick"), int(task.get("seed", 0))
    n = 200 if tier == "quick" else 5000
    evals = 0
    viol = []
    distinct = set()

    def bad(tag, detail, seed):
        if len(viol) < 5:
            rp = write_replay(prop, f"fnmon_{tag}_{seed}.json", dict(kind="fn_monitor", monitor="stochastic_monitor", property=prop, clause=tag, detail=detail, seed=seed))
            viol.append(dict(what=f"{tag}: {detail}"[:300], replay=rp))

    def play(seed, rseed):
        r = random.Random(seed)
        pyrandom.seed(rseed)
        early = r.random() < 0.5
        net = StochasticNetwork(early_departure=early)
        ns = r.randint(1, 3)
        for k in range(ns):
            net.register_evse(acnsim.EVSE(f"S{k}", max_rate=32), 208, 0)
        evs, arrived, departed = {}, [], []
        m_wait, m_sw, m_nc, m_eu = [], 0, 0, 0
        trace = []
        uid = 0
        for step in range(r.randint(4, 30)):
            present = [s for s in arrived if s not in departed]
            op = r.choice(["plug", "plug", "unplug", "full", "post", "stale"])
            if op == "plug":
                uid += 1
                ev = acnsim.EV(0, 100, 5.0, r.choice(["S0", "ZZ"]), f"s{uid}", acnsim.Battery(10, 0, 7))
                evs[ev.session_id] = ev
                free = [k for k, e in net._EVSEs.items() if e._ev is None]
                net.plugin(ev)
                arrived.append(ev.session_id)
                if free:
                    if ev.station_id not in free or net._EVSEs[ev.station_id]._ev is not ev:
                        return "plugin_takes_a_free_station", f"free {free}, ev went to {ev.station_id}", trace
                else:
                    m_wait.append(ev.session_id)
            elif op == "unplug" and present:
                sid = r.choice(present)
                ev = evs[sid]
                was_wait = sid in m_wait
                st_id = ev.station_id
                net.unplug(ev.station_id, sid)
                departed.append(sid)
                if was_wait:
                    m_wait.remove(sid); m_nc += 1
                elif m_wait:
                    head = m_wait.pop(0); m_sw += 1
                    if net._EVSEs[st_id]._ev is not evs[head]:
                        return "freed_station_goes_to_the_head_of_the_queue", f"station {st_id} got {None if net._EVSEs[st_id]._ev is None else net._EVSEs[st_id]._ev._session_id}, head was {head}", trace
            elif op == "stale" and [d for d in departed if evs[d].station_id is not None]:
                # the leftover Unplug event of an EV that was evicted early (its station id still names its old station)
                sid = r.choice([d for d in departed if evs[d].station_id is not None])
                before = _sn_state(net)
                net.unplug(evs[sid].station_id, sid)
                if _sn_state(net) != before:
                    return "stale_unplug_changes_nothing", f"{before} -> {_sn_state(net)}", trace
            elif op == "full":
                for e in net._EVSEs.values():
                    if e._ev is not None and r.random() < 0.5:
                        e._ev._energy_delivered = e._ev._requested_energy
            elif op == "post":
                full = [e._ev for e in net._EVSEs.values() if e._ev is not None and e._ev.fully_charged]
                net.post_charging_update()
                if early:
                    for ev in full:
                        if m_wait:
                            departed.append(ev._session_id)
                            m_wait.pop(0); m_sw += 1; m_eu += 1
            trace.append(op)
            why = _sn_invariant(net, arrived, departed)
            if why:
                return "exactly_one_place_no_starvation", why, trace
            occ, waiting, counters = _sn_state(net)
            if waiting != m_wait:
                return "waiting_is_first_come_first_served", f"real {waiting} model {m_wait}", trace
            if counters != (m_sw, m_nc, m_eu):
                return "counters", f"(swaps, never_charged, early_unplug) real {counters} model {(m_sw, m_nc, m_eu)}", trace
        return None, _sn_state(net), trace

    for k in range(n):
        seed = seed0 * 100003 + k
        evals += 1
        try:
            a = play(seed, 1)
            b = play(seed, 1)
        except Exception as e:
            from .drivers import harness_fault
            if harness_fault(e):
                return dict(label=task.get("label", "stochastic_monitor"), error=f"seed {seed}: {type(e).__name__}: {e}")
            bad("no_exception", f"{type(e).__name__}: {e}", seed)
            continue
        distinct.add(tuple(a[2]))
        if a[0] is not None:
            bad(a[0], a[1], seed)
        elif a[1] != b[1]:
            bad("reproducible_under_a_fixed_seed", f"{a[1]} vs {b[1]}", seed)
    return dict(label=task.get("label", "stochastic_monitor"),
                bound=f"{n} seeded operation sequences (4-30 steps) on 1-3 stations: plugin / unplug / stale unplug / charge-to-full / post_charging_update, "
                      f"early_departure on and off, each played twice under the same random seed",
                evaluations=evals, distinct_nontrivial=len(distinct), violations=viol, wall_s=round(time.time() - t0, 2))
