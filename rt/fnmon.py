"""Function-level run-time contract monitors (bounded stand-ins for what the real-arithmetic proofs cannot see:
IEEE special values such as the default max_rate=inf, exact float boundaries) and for functions outside the
deductive reach.  Same result format as rt.drivers.sim_monitor."""
from __future__ import annotations

import copy
import itertools
import math
import random
import time

from .drivers import write_replay

ATOL = 1e-3


def _snap(e):
    ev = e._ev
    return (e._current_pilot, None if ev is None else (id(ev), ev._energy_delivered, ev._current_charging_rate,
                                                         ev._battery._current_charge, ev._battery._current_charging_power))


def evse_cases():
    from acnportal import acnsim
    inf = float("inf")
    out = []
    for mx, mn in [(32, 0), (inf, 0), (16, 6), (40.5, 0.0), (8, 8)]:
        out.append(("EVSE", dict(max_rate=mx, min_rate=mn), lambda sid, mx=mx, mn=mn: acnsim.EVSE(sid, max_rate=mx, min_rate=mn)))
    out.append(("EVSE", dict(default=True), lambda sid: acnsim.EVSE(sid)))
    for db, mx in [(6, 32), (6, inf), (8, 16), (6, 6)]:
        out.append(("DeadbandEVSE", dict(deadband_end=db, max_rate=mx), lambda sid, db=db, mx=mx: acnsim.DeadbandEVSE(sid, deadband_end=db, max_rate=mx)))
    out.append(("DeadbandEVSE", dict(default=True), lambda sid: acnsim.DeadbandEVSE(sid)))
    for rates in [[8, 16, 24, 32], [32, 6, 16, 6], [0, 8, 8, 48], [], [5.5], list(range(6, 33))]:
        out.append(("FiniteRatesEVSE", dict(rates=rates), lambda sid, rates=rates: acnsim.FiniteRatesEVSE(sid, list(rates))))
    return out


def spec_accepts(kind, e, p):
    """Acceptance predicate written from the property: within 1e-3 A of the allowable set."""
    if math.isnan(p):
        return False
    if kind == "EVSE":
        return e.min_rate - ATOL <= p <= e.max_rate + ATOL
    if kind == "DeadbandEVSE":
        return abs(p) <= ATOL or (e.deadband_end - ATOL <= p <= e.max_rate + ATOL)
    return any(abs(p - a) <= ATOL for a in e.allowable_rates)


def boundaries(kind, e):
    if kind == "EVSE":
        return [e.min_rate, e.max_rate, 0]
    if kind == "DeadbandEVSE":
        return [0, e.deadband_end, e.max_rate]
    return list(e.allowable_rates)


def evse_monitor(task):
    """C13 clauses on the real EVSE classes at and around every boundary (offsets well inside / outside the 1e-3 band; the
    exact band edge is float-fragile and is left to the real-arithmetic proof)."""
    from acnportal import acnsim
    from acnportal.acnsim.models.evse import InvalidRateError, StationOccupiedError
    t0 = time.time()
    prop = task["prop"]
    offs = [0.0, 4e-4, -4e-4, 9e-4, -9e-4, 1.1e-3, -1.1e-3, 2e-3, -2e-3, 0.5, -0.5]
    evals = 0
    viol = []
    distinct = set()

    def bad(tag, detail, case):
        if len(viol) < 5:
            rp = write_replay(prop, f"fnmon_{tag}_{len(viol)}.json", dict(kind="fn_monitor", monitor="evse_monitor", property=prop, clause=tag, detail=detail, case=str(case)))
            viol.append(dict(what=f"{tag}: {detail}"[:300], replay=rp))

    for kind, params, mk in evse_cases():
        e0 = mk("st")
        # invariants established by the constructor
        if kind == "FiniteRatesEVSE":
            r = list(e0.allowable_rates)
            ok = 0 in r and all(a < b for a, b in zip(r, r[1:])) and set(r) == set(params["rates"]) | {0}
            evals += 1
            if not ok:
                bad("finite_list_sorted_distinct_with_zero", f"{params} -> {r}", params)
        adv = [v for v in list(e0.allowable_pilot_signals) + [e0.max_rate]]
        for v in adv:
            evals += 1
            if not e0._valid_rate(v):
                bad("advertised_value_is_accepted", f"{kind}{params}: advertised {v} is rejected", params)
        for b in boundaries(kind, e0):
            if not math.isfinite(b):
                pilots = [b, 1e12]
            else:
                pilots = [b + o for o in offs]
            for occupied in (False, True):
                for p in pilots:
                    e = mk("st")
                    ev = None
                    if occupied:
                        ev = acnsim.EV(0, 10, 5.0, "st", "s1", acnsim.Battery(100, 10, 7))
                        e.plugin(ev)
                    before = _snap(e)
                    want = spec_accepts(kind, e, p)
                    evals += 1
                    distinct.add((kind, str(params), round(p - b, 6) if math.isfinite(b) else "inf", occupied))
                    try:
                        e.set_pilot(p, 208, 5)
                        raised = None
                    except InvalidRateError:
                        raised = "InvalidRateError"
                    except Exception as x:
                        raised = type(x).__name__
                    if want and raised is not None and not (p < 0 and occupied):
                        bad("accepts_within_1e-3_of_allowable_set", f"{kind}{params}: pilot {p!r} rejected ({raised})", params)
                    if not want:
                        if raised != "InvalidRateError":
                            bad("rejects_outside_allowable_set", f"{kind}{params}: pilot {p!r} -> {raised}", params)
                        elif _snap(e) != before:
                            bad("rejected_pilot_changes_nothing", f"{kind}{params}: pilot {p!r}: {before} -> {_snap(e)}", params)
                    if want and raised is None and e._current_pilot != p:
                        bad("accepted_pilot_recorded", f"{kind}{params}: {p} recorded as {e._current_pilot}", params)
        # plug-in refusal
        e = mk("st")
        a = acnsim.EV(0, 10, 5.0, "st", "s1", acnsim.Battery(100, 10, 7))
        b2 = acnsim.EV(0, 10, 5.0, "st", "s2", acnsim.Battery(100, 10, 7))
        e.plugin(a)
        evals += 1
        try:
            e.plugin(b2)
            bad("plugin_on_occupied_refused", f"{kind}{params}: second plugin accepted", params)
        except StationOccupiedError:
            if e.ev is not a:
                bad("plugin_on_occupied_keeps_occupant", f"{kind}{params}", params)
    return dict(label=task.get("label", "evse_monitor"),
                bound="16 parameter sets over the three EVSE classes (incl. default max_rate=inf, min_rate>0, unsorted/duplicated/empty/zero-free rate lists) x "
                      "every boundary x 11 offsets in {0, +-4e-4, +-9e-4, +-1.1e-3, +-2e-3, +-0.5} x vacant/occupied",
                evaluations=evals, distinct_nontrivial=len(distinct), violations=viol, wall_s=round(time.time() - t0, 2))


def replay(doc):
    r = globals()[doc["monitor"]](dict(prop=doc["property"]))
    hit = [v for v in r["violations"] if v["what"].startswith(doc["clause"])]
    return bool(hit), "\n".join(v["what"] for v in hit) or "clause holds on this tree"


# ============================================================================ C11: event queue against a list model
def queue_monitor(task):
    """Random interleavings of every EventQueue operation (and JSON round trips) against the pending-set model."""
    from acnportal import acnsim
    from acnportal.acnsim.events import EventQueue, PluginEvent, UnplugEvent, RecomputeEvent, Event
    t0 = time.time()
    prop, tier, seed0 = task["prop"], task.get("tier", "quick"), int(task.get("seed", 0))
    n = 150 if tier == "quick" else 4000
    evals = 0
    viol = []
    distinct = set()

    def bad(tag, detail, seed):
        if len(viol) < 5:
            rp = write_replay(prop, f"fnmon_{tag}_{seed}.json", dict(kind="fn_monitor", monitor="queue_monitor", property=prop, clause=tag, detail=detail, seed=seed))
            viol.append(dict(what=f"{tag}: {detail}"[:300], replay=rp))

    def key(e):
        return (e.timestamp, e.precedence)

    for k in range(n):
        seed = seed0 * 100003 + k
        r = random.Random(seed)
        pending = []          # model: list of event objects
        ops = []
        uid = 0
        for step in range(r.randint(3, 25)):
            op = r.choice(["add", "add", "adds", "get", "cur", "cur", "json", "last", "len"])
            ops.append(op)
            evals += 1

            def mk0():
                nonlocal uid
                uid += 1
                ts = r.randint(0, 12)
                c = r.choice(["P", "U", "R", "E"])
                if c == "R":
                    return RecomputeEvent(ts)
                if c == "E":
                    return Event(ts)
                ev = acnsim.EV(ts, ts + 3, 5.0, "st", f"s{uid}", acnsim.Battery(10, 0, 7))
                return PluginEvent(ts, ev) if c == "P" else UnplugEvent(ts, ev)

            def mk():
                # now and then an event carries an explicitly chosen precedence (0 included): ties are broken by the precedence an event HAS, and a
                # restored queue must keep it, whatever the class default is
                e = mk0()
                if r.random() < 0.2:
                    e.precedence = r.choice([0, 5, 15, 25])
                return e
            if step == 0:
                # half of the sequences start from a queue CONSTRUCTED from a list (several events per period, in arbitrary order)
                if k % 2:
                    es0 = [mk() for _ in range(r.randint(2, 8))]
                    q = EventQueue(es0)
                    pending.extend(es0)
                    ops.append("init(list)")
                else:
                    q = EventQueue()
            if op == "add":
                e = mk(); q.add_event(e); pending.append(e)
            elif op == "adds":
                es = [mk() for _ in range(r.randint(0, 4))]; q.add_events(es); pending.extend(es)
            elif op == "get":
                if not pending:
                    try:
                        q.get_event(); bad("get_on_empty_raises", "no exception", seed)
                    except IndexError:
                        pass
                    continue
                e = q.get_event()
                if e not in pending or any(key(x) < key(e) for x in pending):
                    bad("get_event_returns_time_then_precedence_minimum", f"got {key(e)} pending {sorted(map(key, pending))}", seed)
                if e in pending:
                    pending.remove(e)
            elif op == "cur":
                t = r.randint(0, 13)
                got = q.get_current_events(t)
                want = [x for x in pending if x.timestamp <= t]
                if sorted(map(id, got)) != sorted(map(id, want)):
                    bad("current_events_are_exactly_the_pending_with_ts<=t", f"t={t} got {[key(x) for x in got]} want {sorted(key(x) for x in want)}", seed)
                if any(key(got[i]) > key(got[i + 1]) for i in range(len(got) - 1)):
                    bad("current_events_sorted_time_then_precedence", f"{[key(x) for x in got]}", seed)
                for x in got:
                    if x in pending:
                        pending.remove(x)
            elif op == "json":
                before = [(ts, type(e).__name__, e.precedence, getattr(getattr(e, "ev", None), "session_id", None)) for ts, e in q._queue]
                q2 = EventQueue.from_json(q.to_json())
                after = [(ts, type(e).__name__, e.precedence, getattr(getattr(e, "ev", None), "session_id", None)) for ts, e in q2._queue]
                if before != after or q2._timestep != q._timestep:
                    bad("json_round_trip_keeps_heap_array", f"{before} -> {after}", seed)
                # continue with the restored queue: it must behave identically
                m = {}
                for (ts, e), (ts2, e2) in zip(q._queue, q2._queue):
                    m[id(e)] = e2
                pending = [m.get(id(e), e) for e in pending]
                q = q2
            elif op == "last":
                got = q.get_last_timestamp()
                want = max((x.timestamp for x in pending), default=None)
                if got != want:
                    bad("last_timestamp_reflects_pending", f"got {got} want {want}", seed)
            if len(q) != len(pending) or q.empty() != (not pending):
                bad("len_and_empty_reflect_pending", f"len {len(q)} empty {q.empty()} model {len(pending)}", seed)
        distinct.add(tuple(ops))
    return dict(label=task.get("label", "queue_monitor"),
                bound=f"{n} seeded operation sequences of 3-25 steps over add_event/add_events/get_event/get_current_events/len/empty/"
                      f"get_last_timestamp/JSON round trip, timestamps 0..12 with ties, all four event classes",
                evaluations=evals, distinct_nontrivial=len(distinct), violations=viol, wall_s=round(time.time() - t0, 2))


# ============================================================================ C19: stochastic space assignment
def _sn_state(net):
    occ = {k: (None if e._ev is None else e._ev._session_id) for k, e in net._EVSEs.items()}
    return occ, list(net.waiting_queue.keys()), (net.swaps, net.never_charged, net.early_unplug)


def _sn_invariant(net, arrived, departed):
    occ, waiting, _ = _sn_state(net)
    conn = [v for v in occ.values() if v is not None]
    if len(conn) != len(set(conn)):
        return f"an EV is connected to two stations: {occ}"
    if set(conn) & set(waiting):
        return f"an EV is both connected and waiting: {occ} {waiting}"
    if len(waiting) != len(set(waiting)):
        return f"duplicate in waiting queue {waiting}"
    if waiting and any(v is None for v in occ.values()):
        return f"an EV waits while a station is free: {occ} waiting {waiting}"
    for k, e in net._EVSEs.items():
        if e._ev is not None and e._ev.station_id != k:
            return f"occupant of {k} believes it is at {e._ev.station_id}"
    for sid, ev in net.waiting_queue.items():
        if ev.station_id is not None or ev.session_id != sid:
            return f"waiting EV {sid} has station {ev.station_id}"
    here = set(conn) | set(waiting)
    if here != set(arrived) - set(departed):
        return f"present {sorted(here)} != arrived-departed {sorted(set(arrived) - set(departed))}"
    return None


def stochastic_monitor(task):
    """Random plugin / unplug / charge-to-full / post_charging_update sequences on the real StochasticNetwork against the
    first-come-first-served model; the free station chosen by random.choice is read back (so every seed is covered up to the bound)."""
    import random as pyrandom
    from acnportal import acnsim
    from acnportal.contrib.acnsim.network.stochastic_network import StochasticNetwork
    t0 = time.time()
    prop, tier, seed0 = task["prop"], task.get("tier", "quick"), int(task.get("seed", 0))
    n = 200 if tier == "quick" else 5000
    evals = 0
    viol = []
    distinct = set()

    def bad(tag, detail, seed):
        if len(viol) < 5:
            rp = write_replay(prop, f"fnmon_{tag}_{seed}.json", dict(kind="fn_monitor", monitor="stochastic_monitor", property=prop, clause=tag, detail=detail, seed=seed))
            viol.append(dict(what=f"{tag}: {detail}"[:300], replay=rp))

    def play(seed, rseed):
        r = random.Random(seed)
        pyrandom.seed(rseed)
        early = r.random() < 0.5
        net = StochasticNetwork(early_departure=early)
        ns = r.randint(1, 3)
        for k in range(ns):
            net.register_evse(acnsim.EVSE(f"S{k}", max_rate=32), 208, 0)
        evs, arrived, departed = {}, [], []
        m_wait, m_sw, m_nc, m_eu = [], 0, 0, 0
        trace = []
        uid = 0
        for step in range(r.randint(4, 30)):
            present = [s for s in arrived if s not in departed]
            op = r.choice(["plug", "plug", "unplug", "full", "post", "stale"])
            if op == "plug":
                uid += 1
                ev = acnsim.EV(0, 100, 5.0, r.choice(["S0", "ZZ"]), f"s{uid}", acnsim.Battery(10, 0, 7))
                evs[ev.session_id] = ev
                free = [k for k, e in net._EVSEs.items() if e._ev is None]
                net.plugin(ev)
                arrived.append(ev.session_id)
                if free:
                    if ev.station_id not in free or net._EVSEs[ev.station_id]._ev is not ev:
                        return "plugin_takes_a_free_station", f"free {free}, ev went to {ev.station_id}", trace
                else:
                    m_wait.append(ev.session_id)
            elif op == "unplug" and present:
                sid = r.choice(present)
                ev = evs[sid]
                was_wait = sid in m_wait
                st_id = ev.station_id
                net.unplug(ev.station_id, sid)
                departed.append(sid)
                if was_wait:
                    m_wait.remove(sid); m_nc += 1
                elif m_wait:
                    head = m_wait.pop(0); m_sw += 1
                    if net._EVSEs[st_id]._ev is not evs[head]:
                        return "freed_station_goes_to_the_head_of_the_queue", f"station {st_id} got {None if net._EVSEs[st_id]._ev is None else net._EVSEs[st_id]._ev._session_id}, head was {head}", trace
            elif op == "stale" and [d for d in departed if evs[d].station_id is not None]:
                # the leftover Unplug event of an EV that was evicted early (its station id still names its old station)
                sid = r.choice([d for d in departed if evs[d].station_id is not None])
                before = _sn_state(net)
                net.unplug(evs[sid].station_id, sid)
                if _sn_state(net) != before:
                    return "stale_unplug_changes_nothing", f"{before} -> {_sn_state(net)}", trace
            elif op == "full":
                for e in net._EVSEs.values():
                    if e._ev is not None and r.random() < 0.5:
                        e._ev._energy_delivered = e._ev._requested_energy
            elif op == "post":
                full = [e._ev for e in net._EVSEs.values() if e._ev is not None and e._ev.fully_charged]
                net.post_charging_update()
                if early:
                    for ev in full:
                        if m_wait:
                            departed.append(ev._session_id)
                            m_wait.pop(0); m_sw += 1; m_eu += 1
            trace.append(op)
            why = _sn_invariant(net, arrived, departed)
            if why:
                return "exactly_one_place_no_starvation", why, trace
            occ, waiting, counters = _sn_state(net)
            if waiting != m_wait:
                return "waiting_is_first_come_first_served", f"real {waiting} model {m_wait}", trace
            if counters != (m_sw, m_nc, m_eu):
                return "counters", f"(swaps, never_charged, early_unplug) real {counters} model {(m_sw, m_nc, m_eu)}", trace
        return None, _sn_state(net), trace

    for k in range(n):
        seed = seed0 * 100003 + k
        evals += 1
        try:
            a = play(seed, 1)
            b = play(seed, 1)
        except Exception as e:
            from .drivers import harness_fault
            if harness_fault(e):
                return dict(label=task.get("label", "stochastic_monitor"), error=f"seed {seed}: {type(e).__name__}: {e}")
            bad("no_exception", f"{type(e).__name__}: {e}", seed)
            continue
        distinct.add(tuple(a[2]))
        if a[0] is not None:
            bad(a[0], a[1], seed)
        elif a[1] != b[1]:
            bad("reproducible_under_a_fixed_seed", f"{a[1]} vs {b[1]}", seed)
    return dict(label=task.get("label", "stochastic_monitor"),
                bound=f"{n} seeded operation sequences (4-30 steps) on 1-3 stations: plugin / unplug / stale unplug / charge-to-full / post_charging_update, "
                      f"early_departure on and off, each played twice under the same random seed",
                evaluations=evals, distinct_nontrivial=len(distinct), violations=viol, wall_s=round(time.time() - t0, 2))


# ============================================================================ C17: tariffs
TARIFFS = ["pge_a10_tou_aug_2019", "sce_tou_ev_4_march_2019", "sce_tou_ev_4_march_2019_tou_periods_shifted", "sce_tou_ev_8_june_2019",
           "sce_tou_ev_8_oct_2018"]


def _calendar_years():
    """14 years covering every (leap?, weekday of Jan 1) combination"""
    import calendar
    from datetime import date
    seen, out = set(), []
    for y in range(2000, 2045):
        k = (calendar.isleap(y), date(y, 1, 1).weekday())
        if k not in seen:
            seen.add(k)
            out.append(y)
    assert len(out) == 14
    return out


def _spec_schedule(doc, month, day, weekday):
    """independent reading of the tariff file: season (cyclic, inclusive) and weekday class"""
    hits = []
    for s in doc["schedule"]:
        a = tuple(int(x) for x in s["effective_start"].split("-"))
        b = tuple(int(x) for x in s["effective_end"].split("-"))
        md = (month, day)
        in_season = (a <= md <= b) if a <= b else (md >= a or md <= b)
        mask = {"WEEKDAYS": weekday < 5, "WEEKENDS": weekday >= 5, "ALL": True}[s["dow_mask"]]
        if in_season and mask:
            hits.append(s)
    return hits


def _spec_rate(s, hour_frac):
    from fractions import Fraction
    pts = sorted((Fraction(str(t)), float(r)) for t, r in zip(s["times"], s["tariffs"]))
    best = None
    for t, r in pts:
        if t <= hour_frac:
            best = r
    return best


def tariff_monitor(task):
    import json as _json
    import os as _os
    import warnings
    from datetime import datetime, timedelta, date
    from fractions import Fraction
    import numpy as np
    import acnportal.signals.tariffs.tou_tariff as tt
    from acnportal.signals.tariffs import TimeOfUseTariff
    t0 = time.time()
    prop, tier, seed0 = task["prop"], task.get("tier", "quick"), int(task.get("seed", 0))
    evals = 0
    viol = []
    distinct = set()
    rnd = random.Random(seed0)

    def bad(tag, detail):
        if len(viol) < 5:
            rp = write_replay(prop, f"fnmon_{tag}_{len(viol)}.json", dict(kind="fn_monitor", monitor="tariff_monitor", property=prop, clause=tag, detail=detail))
            viol.append(dict(what=f"{tag}: {detail}"[:300], replay=rp))

    years = _calendar_years()
    ddir = _os.path.join(_os.path.dirname(tt.__file__), "tariff_schedules")
    exhaustive_days = 0
    for name in TARIFFS:
        doc = _json.load(open(_os.path.join(ddir, name + ".json")))
        tar = TimeOfUseTariff(name)
        for s in doc["schedule"]:
            ts = sorted(float(x) for x in s["times"])
            evals += 1
            if ts[0] != 0 or any(not (0 <= x < 24) for x in ts) or len(set(ts)) != len(ts):
                bad("breakpoints_start_at_0_inside_day", f"{name}/{s['id']}: {s['times']}")
        # every (month, day, weekday) triple: one representative date per triple (quick) / all 14 calendar types (thorough)
        seen_triples = set()
        for y in years:
            d = date(y, 1, 1)
            while d.year == y:
                trip = (d.month, d.day, d.weekday())
                if tier == "quick" and trip in seen_triples:
                    d += timedelta(days=1)
                    continue
                seen_triples.add(trip)
                exhaustive_days += 1
                hits = _spec_schedule(doc, *trip)
                evals += 1
                if len(hits) != 1:
                    bad("exactly_one_schedule_per_day(data)", f"{name} {d} weekday {d.weekday()}: {[h['id'] for h in hits]}")
                    d += timedelta(days=1)
                    continue
                s = hits[0]
                times = sorted(set([0.0, 23 + 59 / 60.0] + [float(x) for x in s["times"]]))
                probes = []
                for b in times:
                    base = datetime(d.year, d.month, d.day) + timedelta(seconds=round(b * 3600))
                    for delta in (0, -60, 60, 1):
                        p = base + timedelta(seconds=delta)
                        if p.date() == d:
                            probes.append(p)
                probes.append(datetime(d.year, d.month, d.day, rnd.randint(0, 23), rnd.randint(0, 59), rnd.randint(0, 59)))
                for p in probes:
                    hf = Fraction(p.hour) + Fraction(p.minute, 60) + Fraction(p.second, 3600)
                    want = _spec_rate(s, hf)
                    evals += 1
                    try:
                        got = tar.get_tariff(p)
                    except Exception as e:
                        bad("lookup_is_total", f"{name} {p}: {type(e).__name__}: {e}")
                        break
                    if got != want:
                        bad("price_is_rate_of_latest_breakpoint_for_season_and_day_class", f"{name} {p}: got {got}, file says {want} ({s['id']})")
                        break
                try:
                    dc = tar.get_demand_charge(datetime(d.year, d.month, d.day, 12))
                    if dc != s.get("demand_charge"):
                        bad("demand_charge_of_the_day's_schedule", f"{name} {d}: {dc} vs {s.get('demand_charge')}")
                except Exception as e:
                    bad("lookup_is_total", f"{name} {d} demand charge: {type(e).__name__}: {e}")
                d += timedelta(days=1)
        distinct.update((name,) + t for t in seen_triples)
        # vector lookup = per-period lookup
        for _ in range(40 if tier == "quick" else 400):
            st = datetime(rnd.choice(years), rnd.randint(1, 12), rnd.randint(1, 28), rnd.randint(0, 23), rnd.randint(0, 59))
            per = rnd.choice([1, 5, 7.5, 15, 60, 90])
            n = rnd.randint(0, 60)
            evals += 1
            try:
                got = tar.get_tariffs(st, n, per)
                want = [tar.get_tariff(st + k * timedelta(minutes=per)) for k in range(n)]
            except ValueError as e:
                bad("lookup_is_total", f"{name} vector from {st}: {e}")
                continue
            if list(got) != want:
                bad("vector_is_per_period_lookup_at_start+k*period", f"{name} start {st} period {per} n {n}")
    # interface alignment and cost functions on a real simulation
    from acnportal import acnsim
    from acnportal.acnsim import analysis
    from . import scen
    for k in range(12 if tier == "quick" else 200):
        scn = scen.gen(seed0 * 1000 + k, scheduler=dict(kind="uncontrolled"))
        name = TARIFFS[k % len(TARIFFS)]
        tar = TimeOfUseTariff(name)
        with warnings.catch_warnings():
            warnings.simplefilter("ignore")
            sim = scen.build(scn)
            sim.signals = {"tariff": tar}
            sim.start = datetime(2019, rnd.randint(1, 12), rnd.randint(1, 28), rnd.randint(0, 23), rnd.choice([0, 30, 59]))
            iface = sim.scheduler.interface
            sim.run()
        try:
            _tariff_alignment(sim, tar, name, iface, rnd, bad)
            evals += 12
        except Exception as e:
            from .drivers import harness_fault
            if harness_fault(e):
                raise
            bad("lookup_is_total", f"{name} on a simulation starting {sim.start}: {type(e).__name__}: {e}")
    for name in TARIFFS:
        try:
            evals += _long_trajectory_cost(name, rnd, bad)
        except Exception as e:
            from .drivers import harness_fault
            if harness_fault(e):
                raise
            bad("lookup_is_total", f"{name} on a three-week trajectory: {type(e).__name__}: {e}")
    return dict(label=task.get("label", "tariff_monitor"),
                bound=("all 5 bundled tariff files x every (month, day, weekday) triple (366 x 7 = 2562 per file; thorough: every day of the 14 calendar "
                       "types) x every breakpoint and +-1 min / +1 s around it, 00:00, 23:59 and a seeded instant; one tariff object per file across all years; "
                       "vector lookups and Interface/analysis alignment on seeded simulations"),
                exhaustive_over_dates=True, days_checked=exhaustive_days,
                evaluations=evals, distinct_nontrivial=len(distinct), violations=viol, wall_s=round(time.time() - t0, 2))


def _long_trajectory_cost(name, rnd, bad):
    """energy_cost / demand_charge on a recorded trajectory of THREE WEEKS (hourly periods) that starts a few days before a season boundary of the
    tariff: every period's price is the lookup at start + k x period - also beyond the first week, also across the boundary.  The trajectory is
    assigned, not simulated (the analysis functions are functions of the recorded matrices)."""
    import warnings
    from datetime import datetime, timedelta
    import numpy as np
    from acnportal import acnsim
    from acnportal.acnsim import analysis
    from acnportal.signals.tariffs.tou_tariff import TimeOfUseTariff
    tar = TimeOfUseTariff(name)
    bounds = sorted({s.start for s in tar._schedule if s.start != (1, 1)})
    n = 0
    for (m, d) in bounds[:2]:
        st = datetime(2019, m, d, rnd.randint(0, 23)) - timedelta(days=rnd.randint(3, 6))
        net = acnsim.ChargingNetwork()
        for k in range(2):
            net.register_evse(acnsim.EVSE(f"L{k}"), 208 + 32 * k, 0)
        with warnings.catch_warnings():
            warnings.simplefilter("ignore")
            sim = acnsim.Simulator(net, None, acnsim.EventQueue(), st, period=60, signals={"tariff": tar}, verbose=False)
        T = 21 * 24
        rg = np.random.RandomState(rnd.randint(0, 10 ** 6))
        sim.charging_rates = rg.uniform(0, 32, size=(2, T))
        sim.pilot_signals = sim.charging_rates.copy()
        sim._iteration = T
        agg = analysis.aggregate_power(sim)
        prices = [tar.get_tariff(st + timedelta(hours=j)) for j in range(T)]
        want = sum(p * a for p, a in zip(prices, agg))
        got = analysis.energy_cost(sim)
        n += 1
        if abs(got - want) > 1e-9 * max(1, abs(want)):
            bad("energy_cost_is_sum_price_x_power_x_dt", f"{name}: three weeks from {st} (across the season boundary {m}-{d}): {got} vs {want}")
        wdc = tar.get_demand_charge(st) * max(agg)
        if abs(analysis.demand_charge(sim) - wdc) > 1e-9 * max(1, abs(wdc)):
            bad("demand_charge_is_rate_x_peak_power", f"{name}: {analysis.demand_charge(sim)} vs {wdc}")
    return n


def _tariff_alignment(sim, tar, name, iface, rnd, bad):
    from datetime import timedelta
    from acnportal.acnsim import analysis
    if True:
        per = sim.period
        evals = 0
        for start in (None, 0, 1, sim._iteration, 7):
            n = rnd.randint(1, 30)
            evals += 1
            s0 = sim._iteration if start is None else start
            want = [tar.get_tariff(sim.start + timedelta(minutes=per) * (s0 + j)) for j in range(n)]
            got = list(iface.get_prices(n, start))
            if got != want:
                bad("interface_prices_aligned_with_simulation_time", f"{name} start={start} iteration={sim._iteration} period={per}: got {got[:3]} want {want[:3]}")
            wdc = tar.get_demand_charge(sim.start + timedelta(minutes=per) * s0)
            if iface.get_demand_charge(start) != wdc:
                bad("interface_demand_charge_aligned", f"{name} start={start}")
        agg = analysis.aggregate_power(sim)
        prices = [tar.get_tariff(sim.start + timedelta(minutes=per) * j) for j in range(len(agg))]
        want = sum(p * a for p, a in zip(prices, agg)) * per / 60
        got = analysis.energy_cost(sim)
        evals += 2
        if abs(got - want) > 1e-9 * max(1, abs(want)):
            bad("energy_cost_is_sum_price_x_power_x_dt", f"{got} vs {want}")
        wdc = tar.get_demand_charge(sim.start) * (max(agg) if len(agg) else 0)
        if abs(analysis.demand_charge(sim) - wdc) > 1e-9 * max(1, abs(wdc)):
            bad("demand_charge_is_rate_x_peak_power", f"{analysis.demand_charge(sim)} vs {wdc}")



# ============================================================================ C15: session generation
def events_monitor(task):
    import math as _m
    import warnings
    from datetime import datetime, timedelta
    import numpy as np
    import pytz
    from acnportal.acnsim.events import acndata_events as ae
    from acnportal.acnsim.events.stochastic_events import StochasticEvents
    from acnportal.acnsim.models.battery import Battery, Linear2StageBattery, batt_cap_fn
    t0 = time.time()
    prop, tier, seed0 = task["prop"], task.get("tier", "quick"), int(task.get("seed", 0))
    n = 400 if tier == "quick" else 10000
    rnd = random.Random(seed0)
    evals = 0
    viol = []
    distinct = set()

    def bad(tag, detail):
        if len(viol) < 5:
            rp = write_replay(prop, f"fnmon_{tag}_{len(viol)}.json", dict(kind="fn_monitor", monitor="events_monitor", property=prop, clause=tag, detail=detail))
            viol.append(dict(what=f"{tag}: {detail}"[:300], replay=rp))

    zones = [pytz.timezone(z) for z in ("America/Los_Angeles", "UTC", "America/New_York", "Europe/Berlin", "Asia/Kolkata")]

    def rand_dt(base=None, span_h=72):
        tz = rnd.choice(zones)
        if base is None:
            naive = datetime(rnd.choice([2018, 2019, 2020]), rnd.choice([1, 3, 3, 6, 11, 11]), rnd.randint(1, 28), rnd.randint(0, 23), rnd.randint(0, 59), rnd.randint(0, 59))
            utc = pytz.utc.localize(naive)
        else:
            utc = base + timedelta(seconds=rnd.randint(0, span_h * 3600))
        return utc.astimezone(tz)

    def idx(dt, period):
        return _m.floor(dt.timestamp() / (60 * period))

    class CapFn:
        def __call__(self, e, stay, v, p):
            return batt_cap_fn(e, stay, v, p)

    for k in range(n):
        period = rnd.choice([1, 5, 7.5, 15])
        voltage = rnd.choice([208, 240])
        pmax = rnd.choice([3.3, 6.6, 7.0])
        start = rand_dt()
        conn = rand_dt(start.astimezone(pytz.utc), 48)
        disc = conn.astimezone(pytz.utc) + timedelta(seconds=rnd.choice([30, 600, 3600, 4 * 3600, 30 * 3600]))
        disc = disc.astimezone(rnd.choice(zones))
        kwh = rnd.choice([0.2, 3.0, 14.0, 60.0])
        max_len = rnd.choice([None, None, 3, 40])
        ff = rnd.random() < 0.5
        mode = rnd.choice(["default", "default", "fit"])
        doc = dict(connectionTime=conn, disconnectTime=disc, kWhDelivered=kwh, sessionID=f"sess{k}", spaceID=f"sp{k % 7}")
        offset = ae._datetime_to_timestamp(start, period)
        evals += 1
        distinct.add((period, max_len, ff, mode, kwh))
        if offset != idx(start, period):
            bad("timestamp_is_floor_of_period_index", f"{start} period {period}: {offset} vs {idx(start, period)}")
        a_want = idx(conn, period) - idx(start, period)
        d_want = idx(disc, period) - idx(start, period)
        if max_len is not None and d_want - a_want > max_len:
            d_want = a_want + max_len
        if d_want <= a_want:
            continue            # EV's own constructor rejects zero-length stays; not part of this property
        e_want = min(kwh, pmax * (d_want - a_want) * period / 60) if ff else kwh
        bp = None if mode == "default" else dict(type=Linear2StageBattery, capacity_fn=CapFn())
        try:
            with warnings.catch_warnings():
                warnings.simplefilter("ignore")
                ev = ae._convert_to_ev(doc, offset, period, voltage, pmax, max_len, bp, ff)
        except ValueError as e:
            if mode == "fit" and "No feasible battery size" in str(e):
                continue
            bad("conversion_total", f"{doc} -> {type(e).__name__}: {e}")
            continue
        if (ev.arrival, ev.departure) != (a_want, d_want):
            bad("arrival_departure_are_period_indices_minus_start_index", f"got {(ev.arrival, ev.departure)} want {(a_want, d_want)} (period {period}, max_len {max_len})")
        if abs(ev.requested_energy - e_want) > 1e-12 * max(1, e_want):
            bad("requested_energy_is_delivered_capped_by_feasible", f"got {ev.requested_energy} want {e_want} (force_feasible={ff})")
        if ev.session_id != doc["sessionID"] or ev.station_id != doc["spaceID"]:
            bad("ids_copied", f"{ev.session_id} {ev.station_id}")
        b = ev._battery
        # the fit's bisection stops within 1e-9 in state of charge, i.e. 1e-9 x capacity in kWh
        if b._capacity - b._current_charge < ev.requested_energy - (1e-12 if mode == "default" else 2e-9 * b._capacity):
            bad("battery_free_capacity_covers_request", f"cap {b._capacity} charge {b._current_charge} request {ev.requested_energy}")
        if mode == "fit":
            stay = ev.departure - ev.arrival
            bb = Linear2StageBattery(b._capacity, b._current_charge, 32 * voltage / 1000)
            c0 = bb._current_charge
            for _ in range(stay):
                bb.charge(32, voltage, period)
            if abs((bb._current_charge - c0) - ev.requested_energy) > 1e-6 * max(1, ev.requested_energy):
                bad("fit_full_rate_for_the_stay_delivers_exactly_the_request", f"request {ev.requested_energy} stay {stay} cap {b._capacity} init {b._current_charge}: delivered {bb._current_charge - c0}")
    # get_evs / generate_events end to end with a stubbed data client (order preserved, one offset for all)
    for k in range(20 if tier == "quick" else 300):
        period = rnd.choice([1, 5, 15])
        start = rand_dt()
        docs = []
        for j in range(rnd.randint(0, 6)):
            c = rand_dt(start.astimezone(pytz.utc), 40)
            docs.append(dict(connectionTime=c, disconnectTime=c + timedelta(hours=rnd.choice([1, 2, 9])), kWhDelivered=rnd.choice([1.0, 8.0]), sessionID=f"s{j}", spaceID=f"p{j}"))
        orig = ae.DataClient

        class Stub:
            def __init__(self, token):
                pass

            def get_sessions_by_time(self, site, s, e):
                return iter(docs)
        ae.DataClient = Stub
        try:
            evs = ae.get_evs("tok", "caltech", start, start + timedelta(days=3), period, 208, 7.0)
            q = ae.generate_events("tok", "caltech", start, start + timedelta(days=3), period, 208, 7.0)
        finally:
            ae.DataClient = orig
        evals += 1
        want = [(idx(d["connectionTime"], period) - idx(start, period), idx(d["disconnectTime"], period) - idx(start, period), d["sessionID"]) for d in docs]
        got = [(e.arrival, e.departure, e.session_id) for e in evs]
        if got != want:
            bad("get_evs_preserves_order_and_uses_one_offset", f"{got} vs {want}")
        if sorted((ts, e.ev.session_id) for ts, e in q._queue) != sorted((a, s) for a, d_, s in want):
            bad("generate_events_plugs_each_session_at_its_arrival", "queue content differs")
    # stochastic samples
    for k in range(n // 2):
        period = rnd.choice([1, 5, 12])
        pmax = rnd.choice([3.3, 6.6])
        rows = []
        for j in range(rnd.randint(1, 6)):
            rows.append([rnd.choice([-1.0, 0.0, 7.3, 18.999, 23.5]), rnd.choice([0.0, -2.0, 0.26, 3.0, 11.7]), rnd.choice([0.0, 0.5, 9.0, 50.0])])
        max_len = rnd.choice([None, 3, 8])
        ff = rnd.random() < 0.5
        mode = rnd.choice(["default", "fit"])
        bp = None if mode == "default" else dict(type=Linear2StageBattery, capacity_fn=CapFn())
        evals += 1
        try:
            import io, contextlib
            with contextlib.redirect_stdout(io.StringIO()), warnings.catch_warnings():
                warnings.simplefilter("ignore")
                evs = StochasticEvents._convert_ev_matrix(np.array(rows), period, 208, pmax, max_len, bp, ff)
        except ValueError as e:
            if "No feasible battery size" in str(e) or "Departure must be later" in str(e):
                continue
            bad("sample_conversion_total", f"{rows}: {e}")
            continue
        pph = 60 / period
        want = []
        for i, (a, dur, en) in enumerate(rows):
            if a < 0 or dur <= 0 or en <= 0:
                continue
            if max_len is not None and dur > max_len:
                dur = max_len
            if ff:
                en = min(pmax * dur, en)
            want.append((int(a * pph), int((a + dur) * pph), en, f"session_{i}", f"station_{i}"))
        got = [(e.arrival, e.departure, e.requested_energy, e.session_id, e.station_id) for e in evs]
        if [g[:2] + g[3:] for g in got] != [w[:2] + w[3:] for w in want] or any(abs(g[2] - w[2]) > 1e-12 for g, w in zip(got, want)):
            bad("sample_rows_converted_in_order_with_caps", f"got {got} want {want}")
        for e in evs:
            b = e._battery
            if b._capacity - b._current_charge < e.requested_energy - (1e-12 if mode == "default" else 2e-9 * b._capacity):
                bad("battery_free_capacity_covers_request", f"(sample) cap {b._capacity} charge {b._current_charge} request {e.requested_energy}")
    # capacity fit on its own
    for k in range(n):
        E = rnd.choice([0.05, 0.5, 1.0, 3.0, 7.9, 8.0, 20.0, 39.0, 77.0])
        stay = rnd.choice([1, 4, 12, 40, 100, 300])
        V, p = rnd.choice([208, 240]), rnd.choice([1, 5, 15])
        evals += 1
        try:
            cap, init = batt_cap_fn(E, stay, V, p)
        except ValueError:
            continue
        if not (0 <= init <= cap - E + 2e-9 * cap and cap >= E):
            bad("fit_capacity_covers_request", f"E={E} stay={stay}: cap {cap} init {init}")
        bb = Linear2StageBattery(cap, init, 32 * V / 1000)
        for _ in range(stay):
            bb.charge(32, V, p)
        if abs((bb._current_charge - init) - E) > 1e-6 * max(1, E):
            bad("fit_full_rate_for_the_stay_delivers_exactly_the_request", f"E={E} stay={stay} V={V} p={p}: cap {cap} init {init} delivered {bb._current_charge - init}")
    return dict(label=task.get("label", "events_monitor"),
                bound=f"{n} seeded session documents (5 time zones incl. DST months, periods 1/5/7.5/15, max_len None/3/40, force_feasible on/off, default and "
                      f"fitted two-stage batteries), stubbed data client for get_evs/generate_events, {n // 2} sample matrices, {n} (energy, stay) pairs for the capacity fit",
                evaluations=evals, distinct_nontrivial=len(distinct), violations=viol, wall_s=round(time.time() - t0, 2))


# ============================================================================ C20: ACN-Data client
def dataclient_monitor(task):
    """The real DataClient against a stub server (requests.get replaced): every paging structure up to the bound, all query argument
    combinations; RFC-1123 conversions around DST transitions of the zones ACN-Data uses."""
    import copy as _copy
    import itertools as _it
    from datetime import datetime, timedelta
    from email.utils import format_datetime
    import pytz
    import acnportal.acndata.data_client as dc
    from acnportal.acndata import utils as du
    t0 = time.time()
    prop, tier, seed0 = task["prop"], task.get("tier", "quick"), int(task.get("seed", 0))
    rnd = random.Random(seed0)
    evals = 0
    viol = []
    distinct = set()

    def bad(tag, detail):
        if len(viol) < 5:
            rp = write_replay(prop, f"fnmon_{tag}_{len(viol)}.json", dict(kind="fn_monitor", monitor="dataclient_monitor", property=prop, clause=tag, detail=detail))
            viol.append(dict(what=f"{tag}: {detail}"[:300], replay=rp))

    def rfc(dt_utc):
        return dt_utc.strftime("%a, %d %b %Y %H:%M:%S GMT")

    class Resp:
        def __init__(self, payload):
            self._p = payload

        def json(self):
            return _copy.deepcopy(self._p)

    class Server:
        def __init__(self, pages, first_prefix):
            self.pages, self.log, self.first_prefix = pages, [], first_prefix

        def get(self, url, auth=None):
            self.log.append((url, auth))
            if len(self.log) == 1:
                i = 0
            else:
                i = int(url.rsplit("page=", 1)[1])
            items = self.pages[i]
            links = {}
            if i + 1 < len(self.pages):
                links["next"] = {"href": f"sessions/x?page={i + 1}"}
            links["self"] = {"href": f"sessions/x?page={i}"}
            links["parent"] = {"href": "/"}
            return Resp({"_items": items, "_links": links})

    # page structures: up to 4 pages with 0..3 items each (quick: all structures with <= 3 pages of <= 2 items)
    sizes = [0, 1, 2] if tier == "quick" else [0, 1, 2, 3]
    maxp = 3 if tier == "quick" else 4
    structs = [s for n in range(1, maxp + 1) for s in _it.product(sizes, repeat=n)]
    uid = [0]

    def mkdoc():
        uid[0] += 1
        base = pytz.utc.localize(datetime(2019, rnd.choice([3, 6, 11]), rnd.randint(1, 28), rnd.randint(0, 23), rnd.randint(0, 59), rnd.randint(0, 59)))
        zone = rnd.choice(["America/Los_Angeles", "America/New_York", "UTC"])
        if zone != "UTC" and rnd.random() < 0.4:
            # a session (and its time series) that straddles a daylight-saving transition of the document's zone
            tr = rnd.choice([t for t in pytz.timezone(zone)._utc_transition_times if 2018 <= t.year <= 2021])
            base = pytz.utc.localize(tr) - timedelta(minutes=rnd.choice([1, 4, 7]), seconds=rnd.randint(0, 59))
        d = {"_id": f"id{uid[0]}", "sessionID": f"sess{uid[0]}", "timezone": zone,
             "connectionTime": rfc(base), "disconnectTime": rfc(base + timedelta(hours=3)), "doneChargingTime": None, "kWhDelivered": 3.2,
             "siteID": "0002", "userInputs": None, "note": "not a date"}
        if rnd.random() < 0.5:
            d["chargingCurrent"] = {"current": [1.0, 2.0], "timestamps": [rfc(base + timedelta(minutes=5 * k)) for k in range(2)]}
        return d, base

    orig_get = dc.requests.get
    try:
        for st in structs:
            pages, bases = [], {}
            for n_items in st:
                pg = []
                for _ in range(n_items):
                    d, b = mkdoc()
                    pg.append(d)
                    bases[d["_id"]] = b
                pages.append(pg)
            for (cond, project, sort, ts) in ([(None, None, None, False), ("kWhDelivered > 5", "sessionID", "connectionTime", True)] if tier == "quick"
                                              else _it.product([None, 'a == "b"'], [None, "sessionID"], [None, "connectionTime"], [False, True])):
                srv = Server(pages, "")
                dc.requests.get = srv.get
                cl = dc.DataClient("TOKEN", url="https://h/api/v1/")
                evals += 1
                distinct.add((st, cond, project, sort, ts))
                got = list(cl.get_sessions("jpl", cond=cond, project=project, sort=sort, timeseries=ts))
                want_ids = [d["_id"] for pg in pages for d in pg]
                if [g["_id"] for g in got] != want_ids:
                    bad("every_session_once_in_server_order", f"pages {st}: got {[g['_id'] for g in got]} want {want_ids}")
                if len(srv.log) != len(pages):
                    bad("one_request_per_page_following_next", f"pages {st}: {len(srv.log)} requests")
                exp = "https://h/api/v1/sessions/jpl" + ("/ts/" if ts else "") + "?" + "&".join(
                    ([f"where={cond}"] if cond is not None else []) + ([f"project={project}"] if project is not None else [])
                    + ([f"sort={sort}"] if sort is not None else []) + [f"max_results={1 if ts else 100}"])
                if srv.log[0][0] != exp or any(a != ("TOKEN", "") for _, a in srv.log):
                    bad("first_request_carries_site_filter_sort_page_size", f"sent {srv.log[0][0]} expected {exp}")
                for k, (u, _) in enumerate(srv.log[1:], 1):
                    if u != f"https://h/api/v1/sessions/x?page={k}":
                        bad("follows_the_next_link", f"request {k}: {u}")
                for g in got:
                    tz = pytz.timezone(g["timezone"])
                    b = bases[g["_id"]]
                    for f, off in (("connectionTime", 0), ("disconnectTime", 3)):
                        v = g[f]
                        if not isinstance(v, datetime) or v.tzinfo is None or v != b + timedelta(hours=off) or v.utcoffset() != (b + timedelta(hours=off)).astimezone(tz).utcoffset():
                            bad("timestamp_fields_become_aware_datetimes_in_the_document_zone", f"{f}: {v!r} vs {b + timedelta(hours=off)}")
                    if g["note"] != "not a date" or g["doneChargingTime"] is not None or g["kWhDelivered"] != 3.2:
                        bad("other_fields_untouched", f"{g}")
                    if "chargingCurrent" in g:
                        tsl = g["chargingCurrent"]["timestamps"]
                        want = [b + timedelta(minutes=5 * k) for k in range(2)]
                        if [x for x in tsl] != want or any(x.tzinfo is None for x in tsl) or g["chargingCurrent"]["current"] != [1.0, 2.0] \
                                or any(x.utcoffset() != w.astimezone(tz).utcoffset() for x, w in zip(tsl, want)):
                            bad("time_series_timestamps_converted", f"{tsl}")
        # invalid site: rejected before any request
        srv = Server([[]], "")
        dc.requests.get = srv.get
        for site in ("Caltech", "", "jpl ", "office002"):
            evals += 1
            try:
                list(dc.DataClient("T").get_sessions(site))
                bad("invalid_site_rejected", site)
            except ValueError:
                pass
            if srv.log:
                bad("invalid_site_rejected_before_any_request", f"{site}: {srv.log}")
        # time window wrapper
        for _ in range(20):
            srv = Server([[]], "")
            dc.requests.get = srv.get
            s = pytz.timezone("America/Los_Angeles").localize(datetime(2019, rnd.randint(1, 12), rnd.randint(1, 28), rnd.randint(0, 23), rnd.randint(0, 59)))
            e = s + timedelta(days=rnd.randint(1, 9))
            me = rnd.choice([None, 2.5])
            list(dc.DataClient("T", url="u/").get_sessions_by_time("caltech", s, e, min_energy=me))
            evals += 1
            cond = f'connectionTime >= "{rfc(s.astimezone(pytz.utc))}" and connectionTime <= "{rfc(e.astimezone(pytz.utc))}"' + (f" and kWhDelivered > {me}" if me is not None else "")
            exp = f"u/sessions/caltech?where={cond}&sort=connectionTime&max_results=100"
            if srv.log[0][0] != exp:
                bad("time_window_query", f"sent {srv.log[0][0]} expected {exp}")
    finally:
        dc.requests.get = orig_get
    # RFC-1123 <-> aware datetime around DST transitions
    zones = ["America/Los_Angeles", "America/New_York", "UTC", "Europe/London", "Australia/Sydney"] if tier == "quick" else list(pytz.common_timezones)
    for zn in zones:
        tz = pytz.timezone(zn)
        trans = [t for t in getattr(tz, "_utc_transition_times", []) if 2015 <= t.year <= 2030] or [datetime(2019, 3, 10, 10), datetime(2019, 11, 3, 9)]
        if tier == "quick":
            trans = trans[:8]
        for t in trans:
            for minutes in (range(-180, 181, 7) if tier == "quick" else range(-180, 181)):
                u = pytz.utc.localize(t) + timedelta(minutes=minutes, seconds=rnd.randint(0, 59))
                evals += 1
                s = rfc(u)
                p = du.parse_http_date(s, tz)
                if p != u or p.tzinfo is None or p.utcoffset() != u.astimezone(tz).utcoffset() or (p.year, p.month, p.day, p.hour, p.minute) != tuple(u.astimezone(tz).timetuple())[:5]:
                    bad("parse_denotes_same_instant_in_document_zone", f"{s} {zn}: {p!r}")
                loc = u.astimezone(tz)
                if du.http_date(loc) != s or du.parse_http_date(du.http_date(loc), tz) != loc:
                    bad("format_then_parse_is_identity_to_the_second", f"{loc!r}: {du.http_date(loc)}")
    return dict(label=task.get("label", "dataclient_monitor"),
                bound=f"all paging structures with <= {maxp} pages of {sizes} items ({len(structs)} structures) x query argument combinations against a stub server; "
                      f"RFC-1123 conversions at every {'7th ' if tier == 'quick' else ''}minute within +-3 h of DST transitions 2015-2030 in {len(zones)} zones",
                evaluations=evals, distinct_nontrivial=len(distinct), violations=viol, wall_s=round(time.time() - t0, 2))
